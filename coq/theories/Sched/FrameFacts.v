(* Frame facts of the scheduler model, valid for every operation, every user
   program and every state (no invariant needed): the task table only grows, the
   log is only appended to, timeout blocks are only appended and an existing block
   keeps its task and timer and never becomes active again; and below the level of
   Task.__step (library calls, frames, user code) the current task is unchanged. *)
From Coq Require Import QArith.
From RecordUpdate Require Import RecordUpdate.
From Asynkit Require Import Base.Prelude Queue.ListFacts Queue.PQ Queue.PosPQ Queue.Exec
     Sched.Model Sched.PartTables Sched.PartitionProofs.
Import RecordSetNotations.
Open Scope nat_scope.

Definition blocks_mono (s s' : st) : Prop :=
  length (blocks s) <= length (blocks s') /\
  forall b, b < length (blocks s) ->
    btask (getb s' b) = btask (getb s b) /\ btimer (getb s' b) = btimer (getb s b) /\
    (bactive (getb s b) = false -> bactive (getb s' b) = false).

Record grow (s s' : st) : Prop := {
  g_tasks : length (tasks s) <= length (tasks s');
  g_log : exists l, log s' = log s ++ l;
  g_blk : blocks_mono s s' }.

(* G s0 s: s is reached from s0 by operations below Task.__step *)
Definition G (s0 s : st) : Prop := grow s0 s /\ current s = current s0.

Lemma blocks_mono_refl s : blocks_mono s s.
Proof. split; auto. Qed.
Lemma blocks_mono_trans s1 s2 s3 : blocks_mono s1 s2 -> blocks_mono s2 s3 -> blocks_mono s1 s3.
Proof.
  intros [A1 A2] [B1 B2]. split; [lia|]. intros b Hb.
  destruct (A2 b Hb) as (a1 & a2 & a3). destruct (B2 b ltac:(lia)) as (b1 & b2 & b3).
  repeat split; try congruence. auto.
Qed.

Lemma grow_refl s : grow s s.
Proof. constructor; auto. exists []. rewrite app_nil_r. reflexivity. apply blocks_mono_refl. Qed.
Lemma grow_trans s1 s2 s3 : grow s1 s2 -> grow s2 s3 -> grow s1 s3.
Proof.
  intros [A1 [l1 A2] A3] [B1 [l2 B2] B3]. constructor; [lia| |eapply blocks_mono_trans; eauto].
  exists (l1 ++ l2). rewrite B2, A2, app_assoc. reflexivity.
Qed.
Lemma G_refl s : G s s.
Proof. split; [apply grow_refl|reflexivity]. Qed.
Lemma G_trans s1 s2 s3 : G s1 s2 -> G s2 s3 -> G s1 s3.
Proof. intros [A a] [B b]. split; [eapply grow_trans; eauto|congruence]. Qed.

(* an operation that leaves the four observed components alone *)
Lemma G_same s0 s s' :
  length (tasks s') = length (tasks s) -> log s' = log s -> blocks s' = blocks s ->
  current s' = current s -> G s0 s -> G s0 s'.
Proof.
  intros E1 E2 E3 E4 H. eapply G_trans; [exact H|]. split; [|exact E4].
  constructor; [lia|exists []; rewrite app_nil_r; exact E2|].
  unfold blocks_mono, getb. rewrite E3. split; auto.
Qed.

Lemma G_setf s0 s f x : G s0 s -> G s0 (setf s f x).
Proof. apply G_same; reflexivity. Qed.
Lemma G_sett s0 s t x : G s0 s -> G s0 (sett s t x).
Proof. apply G_same; try reflexivity. apply length_tasks_sett. Qed.
Lemma G_setl s0 s l x : G s0 s -> G s0 (setl s l x).
Proof. apply G_same; reflexivity. Qed.
Lemma G_setc s0 s l x : G s0 s -> G s0 (setc s l x).
Proof. apply G_same; reflexivity. Qed.
Lemma G_sete s0 s l x : G s0 s -> G s0 (sete s l x).
Proof. apply G_same; reflexivity. Qed.
Lemma G_ready s0 s r : G s0 s -> G s0 (s <| ready := r |>).
Proof. apply G_same; reflexivity. Qed.
Lemma G_handles s0 s r : G s0 s -> G s0 (s <| handles := r |>).
Proof. apply G_same; reflexivity. Qed.
Lemma G_timers s0 s r : G s0 s -> G s0 (s <| timers := r |>).
Proof. apply G_same; reflexivity. Qed.
Lemma G_adderr s0 s e : G s0 s -> G s0 (adderr s e).
Proof. apply G_same; reflexivity. Qed.
Lemma G_addlog s0 s n : G s0 s -> G s0 (addlog s n).
Proof.
  intros H. eapply G_trans; [exact H|]. split; [|reflexivity].
  constructor; [auto|eexists; reflexivity|split; auto].
Qed.
Lemma G_new_future s0 s o : G s0 s -> G s0 (fst (new_future s o)).
Proof. apply G_same; reflexivity. Qed.
Lemma G_new_future_eq s0 s o s' f : new_future s o = (s', f) -> G s0 s -> G s0 s'.
Proof. intros E. inversion E. apply G_same; reflexivity. Qed.
Lemma G_call_soon s0 s c : G s0 s -> G s0 (call_soon_ s c).
Proof. apply G_same; reflexivity. Qed.
Lemma G_call_at_eq s0 s w c s' h : call_at s w c = (s', h) -> G s0 s -> G s0 s'.
Proof. intros E. inversion E. apply G_same; reflexivity. Qed.
Lemma G_cancel_handle s0 s h : G s0 s -> G s0 (cancel_handle s h).
Proof. apply G_same; reflexivity. Qed.
Lemma G_call_pos s0 s p c : G s0 s -> G s0 (call_pos s p c).
Proof.
  intros H. unfold call_pos. rewrite call_soon_eq. destruct (rq_remove _ _).
  - apply G_ready, G_call_soon, H.
  - apply G_call_soon, H.
Qed.

Ltac case_goal_G :=
  match goal with
  | |- G _ (if ?b then _ else _) => destruct b eqn:?
  | |- G _ (match ?x with _ => _ end) =>
      lazymatch type of x with
      | prod _ _ => let a := fresh "s" in let b := fresh "r" in destruct x as [a b] eqn:?
      | _ => destruct x eqn:?
      end
  | |- G _ (fst (if ?b then _ else _)) => destruct b eqn:?
  | |- G _ (fst (match ?x with _ => _ end)) =>
      lazymatch type of x with
      | prod _ _ => let a := fresh "s" in let b := fresh "r" in destruct x as [a b] eqn:?
      | _ => destruct x eqn:?
      end
  | |- G _ (fst (_, _)) => cbn [fst]
  end.

Ltac gprim := fail.
Ltac gstep :=
  first
    [ assumption
    | apply G_call_soon | apply G_cancel_handle | apply G_call_pos
    | apply G_setf | apply G_sett | apply G_setl | apply G_setc | apply G_sete | apply G_ready
    | apply G_handles | apply G_timers | apply G_adderr | apply G_addlog | apply G_new_future
    | eapply G_new_future_eq; [eassumption|]
    | eapply G_call_at_eq; [eassumption|]
    | gprim
    | case_goal_G ].
Ltac ggo := repeat gstep.
(* from an equation E : f ... = (s', r) *)
Ltac gop E := repeat case_in E; inversion E; subst; clear E; ggo.

Lemma G_fold {A} (f : st -> A -> st) :
  (forall s0 s a, G s0 s -> G s0 (f s a)) ->
  forall l s0 s, G s0 s -> G s0 (fold_left f l s).
Proof. intros H. induction l as [|a l IH]; intros s0 s HG; simpl; auto. Qed.

Lemma G_schedule_callbacks s0 s f : G s0 s -> G s0 (schedule_callbacks s f).
Proof.
  intros H. unfold schedule_callbacks. apply G_fold; [intros; apply G_call_soon; auto|]. ggo.
Qed.

Lemma G_fut_finish s0 s f x s' ok : fut_finish s f x = (s', ok) -> G s0 s -> G s0 s'.
Proof.
  intros E H. unfold fut_finish in E. destruct (fstate_ (getf s f)); inversion E; subst; auto.
  apply G_schedule_callbacks. ggo.
Qed.
Lemma G_fut_finish_fst s0 s f x : G s0 s -> G s0 (fst (fut_finish s f x)).
Proof. intros H. destruct (fut_finish s f x) eqn:E. eapply G_fut_finish; eauto. Qed.

Lemma G_add_done_callback s0 s f c : G s0 s -> G s0 (add_done_callback s f c).
Proof. intros H. unfold add_done_callback. ggo. Qed.
Lemma G_remove_done_callback s0 s f c : G s0 s -> G s0 (remove_done_callback s f c).
Proof. intros H. unfold remove_done_callback. ggo. Qed.

Ltac gprim ::=
  first
    [ eapply G_fut_finish; [eassumption|]
    | apply G_fut_finish_fst | apply G_schedule_callbacks
    | apply G_add_done_callback | apply G_remove_done_callback ].

Lemma G_task_cancel s0 : forall fuel s t s' ok, task_cancel fuel s t = (s', ok) -> G s0 s -> G s0 s'.
Proof.
  induction fuel as [|fuel IH]; intros s t s' ok E H; cbn [task_cancel] in E.
  - gop E.
  - repeat case_in E; inversion E; subst; clear E; ggo;
      match goal with Hc : task_cancel fuel _ _ = _ |- _ => try (eapply IH in Hc; [|eassumption]) end; ggo.
Qed.
Lemma G_cancel_task s0 s t s' ok : cancel_task s t = (s', ok) -> G s0 s -> G s0 s'.
Proof. apply G_task_cancel. Qed.
Lemma G_cancel_awaitable s0 s f s' ok : cancel_awaitable s f = (s', ok) -> G s0 s -> G s0 s'.
Proof.
  unfold cancel_awaitable. destruct (fowner (getf s f)); [apply G_cancel_task|apply G_fut_finish].
Qed.

Ltac gprim ::=
  first
    [ eapply G_fut_finish; [eassumption|]
    | apply G_fut_finish_fst | apply G_schedule_callbacks
    | apply G_add_done_callback | apply G_remove_done_callback
    | eapply G_task_cancel; [eassumption|]
    | eapply G_cancel_task; [eassumption|]
    | eapply G_cancel_awaitable; [eassumption|] ].

(* ------------------------------------------------------------ locks *)
Lemma G_take_lock s0 s l t s' : take_lock s l t = inl s' -> G s0 s -> G s0 s'.
Proof. intros E H. unfold take_lock in E. gop E. Qed.

Lemma G_wake_up_first_p s0 s l : G s0 s -> G s0 (wake_up_first_p s l).
Proof. intros H. unfold wake_up_first_p. ggo. Qed.
Lemma G_wake_up_first_a s0 s l : G s0 s -> G s0 (wake_up_first_a s l).
Proof. intros H. unfold wake_up_first_a. ggo. Qed.
Lemma G_task_reschedule s0 s t : G s0 s -> G s0 (task_reschedule s t).
Proof. intros H. unfold task_reschedule. ggo. Qed.

Lemma G_propagate_task s0 : forall fuel s t, G s0 s -> G s0 (propagate_task fuel s t).
Proof.
  induction fuel as [|fuel IH]; intros s t H; cbn [propagate_task].
  - destruct (negb _); auto.
    set (s' := if task_is_runnable s t then task_reschedule s t else s).
    assert (H' : G s0 s') by (unfold s'; destruct (task_is_runnable s t); [apply G_task_reschedule|]; auto).
    clearbody s'. clear H s. rename s' into s, H' into H.
    destruct (twaiting _); auto.
  - destruct (negb _); auto.
    set (s' := if task_is_runnable s t then task_reschedule s t else s).
    assert (H' : G s0 s') by (unfold s'; destruct (task_is_runnable s t); [apply G_task_reschedule|]; auto).
    clearbody s'. clear H s. rename s' into s, H' into H.
    destruct (twaiting (gett s t)) as [l|]; auto.
    set (s1 := match lowner (getl s l) with Some o => propagate_task fuel s o | None => s end).
    assert (H1 : G s0 s1) by (unfold s1; destruct (lowner (getl s l)); auto).
    clearbody s1. ggo.
Qed.
Lemma G_propagate_priority s0 s t : G s0 s -> G s0 (propagate_priority s t).
Proof. apply G_propagate_task. Qed.

Lemma G_fut_result s0 s f s' r : fut_result s f = (s', r) -> G s0 s -> G s0 s'.
Proof. intros E H. unfold fut_result in E. gop E. Qed.
Lemma G_await_fut s0 s f outer s' r : await_fut s f outer = (s', r) -> G s0 s -> G s0 s'.
Proof.
  intros E H. unfold await_fut in E. destruct (fdone s f).
  - destruct (fut_result s f) as [s1 r1] eqn:F. inversion E; subst. eapply G_fut_result; eauto.
  - inversion E; subst. ggo.
Qed.

Ltac gprim ::=
  first
    [ eapply G_fut_finish; [eassumption|]
    | apply G_fut_finish_fst | apply G_schedule_callbacks
    | apply G_add_done_callback | apply G_remove_done_callback
    | eapply G_task_cancel; [eassumption|]
    | eapply G_cancel_task; [eassumption|]
    | eapply G_cancel_awaitable; [eassumption|]
    | eapply G_take_lock; [eassumption|]
    | apply G_wake_up_first_p | apply G_wake_up_first_a | apply G_task_reschedule
    | apply G_propagate_priority
    | eapply G_fut_result; [eassumption|]
    | eapply G_await_fut; [eassumption|] ].

Lemma G_acquire_p_start s0 s t l s' r : acquire_p_start s t l = (s', r) -> G s0 s -> G s0 s'.
Proof. intros E H. unfold acquire_p_start in E. gop E. Qed.
Lemma G_acquire_p_finish s0 s t l f had inp s' r :
  acquire_p_finish s t l f had inp = (s', r) -> G s0 s -> G s0 s'.
Proof.
  intros E H. unfold acquire_p_finish in E.
  set (p := match inp with RVal _ => _ | RExc e => (s, RExc e) end) in E.
  assert (H1 : G s0 (fst p)).
  { unfold p. destruct inp; [|exact H]. destruct (take_lock s l t) eqn:T; [|exact H].
    eapply G_take_lock; eauto. }
  destruct p as [s1 r1]. cbn [fst] in H1. inversion E; subst. ggo.
Qed.
Lemma G_release_p s0 s t l s' r : release_p s t l = (s', r) -> G s0 s -> G s0 s'.
Proof. intros E H. unfold release_p in E. gop E. Qed.
Lemma G_acquire_a_start s0 s l s' r : acquire_a_start s l = (s', r) -> G s0 s -> G s0 s'.
Proof. intros E H. unfold acquire_a_start in E. gop E. Qed.
Lemma G_acquire_a_finish s0 s l f inp s' r : acquire_a_finish s l f inp = (s', r) -> G s0 s -> G s0 s'.
Proof. intros E H. unfold acquire_a_finish in E. gop E. Qed.
Lemma G_release_a s0 s l s' r : release_a s l = (s', r) -> G s0 s -> G s0 s'.
Proof. intros E H. unfold release_a in E. gop E. Qed.
Lemma G_acquire_start s0 s t l s' r : acquire_start s t l = (s', r) -> G s0 s -> G s0 s'.
Proof.
  unfold acquire_start. destruct (lkind_ (getl s l)); [apply G_acquire_p_start|apply G_acquire_a_start].
Qed.
Lemma G_release s0 s t l s' r : release s t l = (s', r) -> G s0 s -> G s0 s'.
Proof. unfold release. destruct (lkind_ (getl s l)); [apply G_release_p|apply G_release_a]. Qed.

(* ------------------------------------------------------------ throw / reinsert *)
Lemma G_task_throw s0 s t e s' r : task_throw s t e = (s', r) -> G s0 s -> G s0 s'.
Proof. intros E H. unfold task_throw in E. gop E. Qed.
Lemma G_task_reinsert s0 s t p s' r : task_reinsert s t p = (s', r) -> G s0 s -> G s0 s'.
Proof. intros E H. unfold task_reinsert in E. gop E. Qed.
Lemma G_task_interrupt_start s0 s t e s' r : task_interrupt_start s t e = (s', r) -> G s0 s -> G s0 s'.
Proof.
  intros E H. unfold task_interrupt_start in E.
  destruct (task_throw s t e) as [s1 r1] eqn:T. pose proof (G_task_throw _ _ _ _ _ _ T H) as H1.
  destruct r1; [|inversion E; subst; auto].
  destruct (task_reinsert s1 t 0) as [s2 r2] eqn:R. pose proof (G_task_reinsert _ _ _ _ _ _ R H1) as H2.
  destruct r2; inversion E; subst; auto.
Qed.
Lemma G_interruptor s0 : forall fuel s b i s' r, interruptor fuel s b i = (s', r) -> G s0 s -> G s0 s'.
Proof.
  induction fuel as [|fuel IH]; intros s b i s' r E H; cbn [interruptor] in E.
  - inversion E; subst; auto.
  - destruct (Nat.leb 3 i); [inversion E; subst; auto|].
    destruct (negb _); [eapply IH; eauto|].
    destruct (task_interrupt_start s _ _) as [s1 r1] eqn:T.
    pose proof (G_task_interrupt_start _ _ _ _ _ _ T H) as H1.
    repeat case_in E; inversion E; subst; auto; eapply IH; eauto.
Qed.
Lemma interruptor_wrap_fst s r : fst (interruptor_wrap s r) = s.
Proof. unfold interruptor_wrap. destruct r as [[|e]|]; auto. destruct (is_exception e); auto. Qed.
Lemma G_interruptor_wrap s0 s r s' r' : interruptor_wrap s r = (s', r') -> G s0 s -> G s0 s'.
Proof. intros E H. pose proof (interruptor_wrap_fst s r) as F. rewrite E in F. simpl in F. subst. exact H. Qed.

(* ------------------------------------------------------------ conditions *)
Lemma G_notify_p s0 s c n : G s0 s -> G s0 (notify_p s c n).
Proof.
  intros H. unfold notify_p.
  match goal with |- context [fold_left ?F ?l ?a] =>
    assert (HF : G s0 (fst (fst (fold_left F l a)))) end.
  { match goal with |- context [fold_left ?F ?l ?a] => generalize l; intros l0 end.
    assert (X : forall l (a : st * nat * nat), G s0 (fst (fst a)) ->
      G s0 (fst (fst (fold_left (fun '(s1, taken, cnt) (f : nat) =>
               if n <=? cnt then (s1, taken, cnt)
               else if fdone s1 f then (s1, S taken, cnt)
                    else (fst (fut_finish s1 f (FResult 1)), S taken, S cnt)) l a)))).
    { induction l as [|f l IH]; intros [[s1 tk] cnt] Ha; simpl; auto. apply IH.
      destruct (n <=? cnt); auto. destruct (fdone s1 f); auto. simpl. ggo. }
    apply X. exact H. }
  destruct (fold_left _ _ _) as [[s1 tk] cnt]. cbn [fst] in HF. ggo.
Qed.
Lemma G_notify_i s0 s c n : G s0 s -> G s0 (notify_i s c n).
Proof.
  intros H. unfold notify_i.
  assert (X : forall l (a : st * nat), G s0 (fst a) ->
    G s0 (fst (fold_left (fun '(s1, cnt) (f : nat) =>
             if n <=? cnt then (s1, cnt)
             else if fdone s1 f then (s1, cnt)
                  else (fst (fut_finish s1 f (FResult 0)), S cnt)) l a))).
  { induction l as [|f l IH]; intros [s1 cnt] Ha; simpl; auto. apply IH.
    destruct (n <=? cnt); auto. destruct (fdone s1 f); auto. simpl. ggo. }
  apply X. exact H.
Qed.
Lemma G_reacquire s0 s t c pc err body s' r :
  reacquire s t c pc err body = (s', r) -> G s0 s -> G s0 s'.
Proof.
  intros E H. unfold reacquire in E.
  destruct (acquire_start s t _) as [s1 r1] eqn:A. pose proof (G_acquire_start _ _ _ _ _ _ A H).
  repeat case_in E; inversion E; subst; auto.
Qed.
Lemma G_cond_p_after s0 s c r s' r' : cond_p_after s c r = (s', r') -> G s0 s -> G s0 s'.
Proof. intros E H. unfold cond_p_after in E. destruct r; inversion E; subst; auto. apply G_notify_p; auto. Qed.
Lemma G_queue_iterated s0 s : G s0 s -> G s0 (queue_iterated s).
Proof. intros H. unfold queue_iterated. ggo. Qed.

Ltac gprim ::=
  first
    [ eapply G_fut_finish; [eassumption|]
    | apply G_fut_finish_fst | apply G_schedule_callbacks
    | apply G_add_done_callback | apply G_remove_done_callback
    | eapply G_task_cancel; [eassumption|]
    | eapply G_cancel_task; [eassumption|]
    | eapply G_cancel_awaitable; [eassumption|]
    | eapply G_take_lock; [eassumption|]
    | apply G_wake_up_first_p | apply G_wake_up_first_a | apply G_task_reschedule
    | apply G_propagate_priority
    | eapply G_fut_result; [eassumption|]
    | eapply G_await_fut; [eassumption|]
    | eapply G_acquire_start; [eassumption|]
    | eapply G_release; [eassumption|]
    | eapply G_acquire_p_finish; [eassumption|]
    | eapply G_acquire_a_finish; [eassumption|]
    | eapply G_task_throw; [eassumption|]
    | eapply G_task_reinsert; [eassumption|]
    | eapply G_task_interrupt_start; [eassumption|]
    | eapply G_interruptor; [eassumption|]
    | eapply G_interruptor_wrap; [eassumption|]
    | apply G_notify_p | apply G_notify_i | apply G_queue_iterated
    | eapply G_reacquire; [eassumption|]
    | eapply G_cond_p_after; [eassumption|] ].

(* ------------------------------------------------------------ timeout blocks *)
Lemma G_blocks_app s0 s x : G s0 s -> G s0 (s <| blocks := blocks s ++ [x] |>).
Proof.
  intros H. eapply G_trans; [exact H|]. split; [|reflexivity].
  constructor; [auto|exists []; rewrite app_nil_r; reflexivity|].
  split; [cbn; rewrite app_length; lia|]. intros b Hb. unfold getb. cbn.
  rewrite app_nth1 by exact Hb. auto.
Qed.

Lemma G_setb_exit s0 s b :
  G s0 s -> G s0 (setb s b (mkBlk (btask (getb s b)) false (btimer (getb s b)))).
Proof.
  intros H. eapply G_trans; [exact H|]. split; [|reflexivity].
  constructor; [auto|exists []; rewrite app_nil_r; reflexivity|].
  split; [unfold setb; cbn; rewrite set_nth_length; lia|]. intros b' Hb'. unfold getb, setb. cbn.
  rewrite nth_set_nth. destruct (Nat.eqb_spec b' b) as [->|N]; cbn [andb]; auto.
  destruct (Nat.ltb b (length (blocks s))); cbn; auto.
Qed.

(* ------------------------------------------------------------ library calls, frames, user code *)
Lemma G_event_set_fold s0 : forall ws s,
  G s0 s -> G s0 (fold_left (fun s f => if fdone s f then s else fst (fut_finish s f (FResult 1))) ws s).
Proof. intros ws. apply G_fold. intros. ggo. Qed.

Lemma G_lib_call s0 t op s s' r : lib_call t op s = (s', r) -> G s0 s -> G s0 s'.
Proof.
  intros E H. destruct op; cbn [lib_call] in E;
    try (gop E; fail).
  - (* OEventSet *) repeat case_in E; inversion E; subst; auto. apply G_event_set_fold. ggo.
  - (* OTimeoutEnter *) repeat case_in E; inversion E; subst; auto. apply G_blocks_app. ggo.
  - (* OTimeoutExit *) inversion E; subst. apply G_cancel_handle, G_setb_exit, H.
Qed.

Lemma G_frame_resume s0 t fr inp s s' r : frame_resume t fr inp s = (s', r) -> G s0 s -> G s0 s'.
Proof.
  intros E H. destruct fr; cbn [frame_resume] in E; try (gop E; fail);
    try (unfold interruptor_wrap in E; gop E; fail).
Qed.

Lemma G_resume_stack s0 t : forall frs inp s s' r,
  resume_stack t frs inp s = (s', r) -> G s0 s -> G s0 s'.
Proof.
  induction frs as [|fr rest IH]; intros inp s s' r E H; cbn [resume_stack] in E.
  - inversion E; subst; auto.
  - destruct (frame_resume t fr inp s) as [s1 r1] eqn:F.
    pose proof (G_frame_resume _ _ _ _ _ _ _ F H) as H1.
    destruct r1; [eapply IH; eauto|inversion E; subst; auto].
Qed.

Lemma G_new_task s0 s kind p c s' t : new_task s kind p c = (s', t) -> G s0 s -> G s0 s'.
Proof.
  intros E H. unfold new_task in E.
  destruct (new_future s (Some (length (tasks s)))) as [s1 f] eqn:N.
  pose proof (G_new_future_eq _ _ _ _ _ N H) as H1. inversion E; subst. apply G_call_soon.
  eapply G_trans; [exact H1|]. split; [|reflexivity].
  constructor; [cbn; rewrite app_length; lia|exists []; rewrite app_nil_r; reflexivity|split; auto].
Qed.
Lemma G_spawn_task s0 s how c s' t : spawn_task s how c = (s', t) -> G s0 s -> G s0 s'.
Proof. unfold spawn_task. destruct how; apply G_new_task. Qed.

Lemma G_exec s0 t : forall c s s' o, exec t c s = (s', o) -> G s0 s -> G s0 s'.
Proof.
  induction c as [v|e|op k IH|how child IHc k IHk]; intros s s' o E H.
  - inversion E; subst; auto.
  - inversion E; subst; auto.
  - cbn [exec] in E. destruct (lib_call t op s) as [s1 r1] eqn:L.
    pose proof (G_lib_call _ _ _ _ _ _ L H) as H1.
    destruct r1; [eapply IH; eauto|inversion E; subst; auto].
  - destruct how; cbn [exec] in E;
      try (destruct (spawn_task s _ child) as [s1 t'] eqn:S;
           pose proof (G_spawn_task _ _ _ _ _ _ S H) as H1).
    + eapply IHk; eauto.
    + eapply IHk; eauto.
    + eapply IHk; eauto.
    + destruct (lib_call t _ s1) as [s2 r2] eqn:L. pose proof (G_lib_call _ _ _ _ _ _ L H1) as H2.
      destruct r2 as [[v|e]|]; [eapply IHk; eauto|eapply IHk; eauto|inversion E; subst; auto].
    + inversion E; subst; auto.
    + destruct (exec t child s) as [s1 o1] eqn:C. pose proof (IHc _ _ _ C H) as H1.
      destruct o1 as [r1|y frs kc].
      * eapply IHk; [exact E|]. ggo.
      * eapply IHk; [exact E|]. apply G_call_soon.
        match goal with |- G s0 (?u <| futs := ?a |> <| tasks := ?b |>) => assert (HU : G s0 u) end.
        { destruct y; ggo. }
        eapply G_trans; [exact HU|]. split; [|reflexivity].
        constructor; [cbn; rewrite app_length; lia|exists []; rewrite app_nil_r; reflexivity|split; auto].
Qed.

(* ------------------------------------------------------------ Task.__step and the loop *)
Lemma G_grow s0 s : G s0 s -> grow s0 s.
Proof. intros [H _]; exact H. Qed.

Lemma grow_same s s' :
  length (tasks s') = length (tasks s) -> log s' = log s -> blocks s' = blocks s -> grow s s'.
Proof.
  intros E1 E2 E3. constructor; [lia|exists []; rewrite app_nil_r; exact E2|].
  unfold blocks_mono, getb. rewrite E3. split; auto.
Qed.

Lemma G_finish_step s0 t s o : G s0 s -> G s0 (finish_step t s o).
Proof. intros H. unfold finish_step. ggo. Qed.

Lemma grow_step_task t exc s : grow s (step_task t exc s).
Proof.
  unfold step_task. destruct (tdone s t); [apply grow_same; reflexivity|].
  match goal with |- context [sett s t ?x <| current := Some t |>] =>
    set (s1 := sett s t x <| current := Some t |>) end.
  assert (H1 : grow s s1) by (apply grow_same; try reflexivity; apply length_tasks_sett).
  match goal with |- grow s (let '(s2, o) := ?p in _) => assert (HP : G s1 (fst p)); [|destruct p as [sx ox]] end.
  { destruct (tcont_ (gett s t)) as [c|frs k|y frs k| |].
    - destruct (if tmustc (gett s t) then _ else exc); [apply G_refl|].
      destruct (exec t c s1) as [s2 o] eqn:E. cbn [fst]. eapply G_exec; [exact E|apply G_refl].
    - destruct (resume_stack t frs _ s1) as [s2 r] eqn:E.
      pose proof (G_resume_stack s1 t _ _ _ _ _ E (G_refl s1)) as H2.
      destruct r; [|exact H2]. destruct (exec t (k r) s2) as [s3 o] eqn:E3. cbn [fst].
      eapply G_exec; eauto.
    - destruct (if tmustc (gett s t) then _ else exc).
      + destruct (resume_stack t frs _ s1) as [s2 r] eqn:E.
        pose proof (G_resume_stack s1 t _ _ _ _ _ E (G_refl s1)) as H2.
        destruct r; [|exact H2]. destruct (exec t (k r) s2) as [s3 o] eqn:E3. cbn [fst].
        eapply G_exec; eauto.
      + cbn [fst]. destruct y; [apply G_refl|apply G_setf, G_refl].
    - apply G_refl.
    - apply G_refl. }
  cbn [fst] in HP. eapply grow_trans; [exact H1|].
  eapply grow_trans; [apply G_grow, G_finish_step, HP|]. apply grow_same; reflexivity.
Qed.

Lemma grow_wakeup t f s : grow s (wakeup t f s).
Proof.
  unfold wakeup. destruct (fstate_ (getf s f)); try apply grow_step_task.
  destruct (fut_result s f) as [s1 r] eqn:E.
  eapply grow_trans; [apply G_grow; eapply G_fut_result; [exact E|apply G_refl]|apply grow_step_task].
Qed.

Lemma grow_run_callback c s : grow s (run_callback c s).
Proof.
  destruct c as [t e|t f|t p|n|f v|b| |t]; cbn [run_callback]; try apply grow_step_task; try apply grow_wakeup;
    try (apply G_grow; ggo; apply G_refl).
  - destruct (new_task s KC None (interruptor_body b)) as [s1 t1] eqn:E. apply G_grow.
    eapply G_new_task; [exact E|apply G_refl].
  - destruct (cancel_task s t) as [s1 ok] eqn:E. apply G_grow. eapply G_cancel_task; [exact E|apply G_refl].
Qed.

Lemma grow_run_one s : grow s (run_one s).
Proof.
  unfold run_one. destruct (rq_popleft (ready s)) as [[h r]|]; [|apply grow_refl].
  destruct (hcancelled _); [apply grow_same; reflexivity|].
  eapply grow_trans; [|apply grow_run_callback]. apply grow_same; reflexivity.
Qed.

Lemma grow_drop_cancelled : forall fuel s, grow s (drop_cancelled fuel s).
Proof.
  induction fuel as [|fuel IH]; intros s; cbn [drop_cancelled]; [apply grow_refl|].
  destruct (timers s) as [|[w h] tl] eqn:T; [apply grow_refl|].
  destruct (hcancelled _); [|apply grow_refl].
  destruct (HeapqModel.heappop _ _ _) as [[x tm]|]; [|apply grow_refl].
  eapply grow_trans; [|apply IH]. apply grow_same; reflexivity.
Qed.
Lemma grow_move_due : forall fuel s, grow s (move_due fuel s).
Proof.
  induction fuel as [|fuel IH]; intros s; cbn [move_due]; [apply grow_refl|].
  destruct (timers s) as [|[w h] tl] eqn:T; [apply grow_refl|].
  destruct (Qle_bool _ _); [|apply grow_refl].
  destruct (HeapqModel.heappop _ _ _) as [[[x h'] tm]|]; [|apply grow_refl].
  eapply grow_trans; [|apply IH]. apply grow_same; reflexivity.
Qed.
Lemma grow_begin_iteration s : grow s (begin_iteration s).
Proof.
  unfold begin_iteration. eapply grow_trans; [apply grow_drop_cancelled|apply grow_move_due].
Qed.

Theorem grow_do_action s a : grow s (do_action s a).
Proof.
  destruct a; cbn [do_action].
  - apply grow_run_one.
  - apply grow_begin_iteration.
  - apply grow_same; reflexivity.
  - destruct (spawn_task s how c) as [s1 t] eqn:E. apply G_grow. eapply G_spawn_task; [exact E|apply G_refl].
  - destruct (lib_call 0 op s) as [s1 r] eqn:E. apply G_grow. eapply G_lib_call; [exact E|apply G_refl].
Qed.

Theorem grow_actions : forall acts s, grow s (fold_left do_action acts s).
Proof.
  induction acts as [|a acts IH]; intros s; simpl; [apply grow_refl|].
  eapply grow_trans; [apply grow_do_action|apply IH].
Qed.
