(* C16: the three loop models start in states satisfying Inv09 and TWf (so the reachable theorems of
   TimerReach.v apply to every run of each of them), and a concrete run in which a task enters a
   timeout block inside a loop step (non-vacuity of [at_enters]). *)
From Coq Require Import QArith Sorting.Permutation.
From RecordUpdate Require Import RecordUpdate.
From Asynkit Require Import Base.Prelude Queue.Heap Sched.Model Sched.PartTables Sched.PartitionProofs
     Sched.PartitionRun Sched.PartitionFinal Sched.PrioQueueProofs Sched.PrioQueueBoost
     Sched.TimerInv Sched.TimerDue Sched.TimerWf Sched.TimerReach.
Import RecordSetNotations.
Open Scope nat_scope.

Theorem reach_init :
  (forall factor draws lks cds nev,
     let s0 := init_st false factor draws lks cds nev in Inv09 qok_list s0 /\ TWf s0) /\
  (forall draws lks cds nev,
     let s0 := init_st true 0 draws lks cds nev in Inv09 qok_pos s0 /\ TWf s0) /\
  (forall factor draws lks cds nev,
     let s0 := init_st true factor draws lks cds nev in Inv09 qok_boost s0 /\ TWf s0).
Proof.
  split; [|split].
  - intros. split; [apply (Inv09_init qok_list); exact Logic.I|apply TW_init].
  - intros. split; [apply (Inv09_prio draws lks cds nev []); exact Logic.I|apply TW_init].
  - intros. split; [apply (Inv09_prio_boost factor draws lks cds nev []); exact Logic.I|apply TW_init].
Qed.

(* a Python task that enters task_timeout(2) and sleeps 5 inside it *)
Definition rx_coro : coro :=
  Call (OTimeoutEnter (Some 2%Q)) (fun _ => Call (OSleep 5%Q) (fun _ => Ret 0%Z)).
Definition rx_s0 : st := init_st false 0 [] [] [] 0.
Definition rx_acts : list action := [ASpawn SPy rx_coro; AStep].

Example rx_actions_ok : actions_ok rx_s0 rx_acts.
Proof.
  simpl. split; [|split; exact Logic.I]. split; [exact Logic.I|].
  intros m Hm. simpl. split; [exact Logic.I|]. intros; exact Logic.I.
Qed.

(* the run does enter a block (inside the step of task 0), so [at_enters R rx_s0 rx_acts] is not
   vacuous; and what the reachable theorem gives for it: Inv for block 0 / handle 1 / deadline 2
   in the state after the step, with no well-formedness hypothesis *)
Example rx_enters : ~ at_enters (fun _ _ _ _ => False) rx_s0 rx_acts.
Proof.
  unfold at_enters, rx_acts. cbn [run_pre action_pre]. intros (_ & H & _).
  unfold run_one_pre in H. vm_compute in H. destruct H as [H _]. exact (H _ eq_refl).
Qed.

Example rx_inv : Inv qok_list 0 1 (0 + 2)%Q (fold_left do_action rx_acts rx_s0).
Proof.
  destruct reach_init as (A & _). destruct (A 0%Q [] [] [] 0) as [J T].
  pose proof (at_enters_intro qok_list QSpec_list
                (fun t d sm sf => Inv qok_list (length (blocks sm)) (length (handles sm)) (now sm + d)%Q sf)
                rx_s0 rx_acts (fun t d sm sf _ _ _ I => I) J T rx_actions_ok) as H.
  unfold at_enters, rx_acts in H. cbn [run_pre action_pre] in H. destruct H as (_ & H & _).
  unfold run_one_pre in H.
  change (do_action rx_s0 (ASpawn SPy rx_coro)) with (fst (spawn_task rx_s0 SPy rx_coro)) in H.
  set (s1 := fst (spawn_task rx_s0 SPy rx_coro)) in *.
  assert (E : rq_popleft (ready s1) = Some (0, RList [])) by reflexivity. rewrite E in H. cbv zeta in H.
  assert (Eh : geth (s1 <| ready := RList [] |>) 0 = mkH (HStep 0 None) false) by reflexivity.
  rewrite Eh in H. cbn [hcancelled hcb callback_pre] in H.
  unfold step_pre in H.
  assert (Ed : tdone (s1 <| ready := RList [] |>) 0 = false) by reflexivity. rewrite Ed in H. cbv zeta in H.
  assert (Ec : tcont_ (gett (s1 <| ready := RList [] |>) 0) = TNew rx_coro) by reflexivity. rewrite Ec in H.
  assert (Ex : step_exc 0 None (s1 <| ready := RList [] |>) = None) by reflexivity. rewrite Ex in H.
  unfold rx_coro in H. cbn [exec_pre] in H. destruct H as [H _]. specialize (H _ eq_refl).
  exact H.
Qed.
