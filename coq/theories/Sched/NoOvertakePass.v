(* C12 no-overtake: every scheduler action is a [pp3] step with respect to every lock l, on runs
   without asynkit.eager() starts: phase 1 then phase 2, preceded - only in a step of a task that
   was suspended in PriorityLock.acquire() - by a phase 0 that re-keys ([rek]: the `finally` of
   acquire() calling owning.propagate_priority, repair of F16), after which phase 1 carries the
   ownership clauses [otr] for that task.  Same architecture as
   LockProofs.v / WaitProofs.v: library calls -> frames -> resume_stack -> exec (induction on
   the coro tree) -> finish_step -> step_task -> callbacks -> actions; the C13 invariant [Inv]
   of every intermediate state is taken from the *_ext lemmas of LockLib.v / LockProofs.v. *)
From Coq Require Import QArith Lqa Sorting.Permutation.
From RecordUpdate Require Import RecordUpdate.
From Asynkit Require Import Base.Prelude Queue.PQ Queue.Order Queue.PQProofs Queue.PosPQ Queue.Exec
  Sched.Model Sched.Tables Sched.QFacts Sched.LockInv Sched.Footprint Sched.LockOps Sched.LockLib
  Sched.LockProofs Sched.WaitProofs Sched.NoOvertakeRel.
Import RecordSetNotations.
Open Scope nat_scope.

Lemma nov_benign l t s s' r : Inv s -> benign s s' -> nov l t s s' r.
Proof. intros I B. apply nov_both. now apply both_benign. Qed.

Lemma Inv_bound s : Inv s -> forall l1 g, In g (objs s l1) -> g < nf s.
Proof. intros I l1 g H. apply (iD0 I). now exists l1. Qed.

(* ------------------------------------------------------------ acquire / release *)
Lemma acquire_start_nov l s t l0 :
  Inv s -> nov l t s (fst (acquire_start s t l0)) (snd (acquire_start s t l0)).
Proof.
  intros I. unfold acquire_start. destruct (lkind_ (getl s l0)) eqn:Ek.
  - apply nov_acq_p_start; [now apply QD_of_Inv|now apply Inv_bound].
  - destruct (benign_acquire_a_start s l0 I Ek) as [B _]. now apply nov_benign.
Qed.

Lemma release_pre l s t l0 : Inv s -> pre l t s (fst (release s t l0)).
Proof.
  intros I. unfold release. destruct (lkind_ (getl s l0)) eqn:Ek.
  - apply pre_release_p. now apply QD_of_Inv.
  - apply both_pre, both_benign; auto. now apply benign_release_a.
Qed.

Lemma reacquire_nov l s t c pc err body :
  Inv s -> nov l t s (fst (reacquire s t c pc err body)) (snd (reacquire s t c pc err body)).
Proof.
  intros I. unfold reacquire. pose proof (acquire_start_nov l s t (clock (getc s c)) I) as N.
  destruct (acquire_start s t (clock (getc s c))) as [s1 r]. cbn [fst snd] in *.
  destruct r as [[v|e]|y frs]; exact N.
Qed.

Lemma reacq_after_nov l s t c err body :
  Inv s -> t < length (tasks s) ->
  nov l t s (fst (reacq_after s t c err body)) (snd (reacq_after s t c err body)).
Proof.
  intros I Ht. unfold reacq_after.
  pose proof (reacquire_nov l s t c true err body I) as N.
  destruct (reacquire_ext s t c true err body I Ht) as [E _].
  destruct (reacquire s t c true err body) as [s1 r]. cbn [fst snd] in *.
  destruct r as [rep|y frs]; [|exact N].
  pose proof (benign_cond_p_after s1 c rep (ext_inv _ _ E)) as B.
  destruct (cond_p_after s1 c rep) as [s2 rep']. cbn [fst snd] in *.
  unfold nov in *. cbn [lres_done] in *. eapply pre_both_r; [exact N|].
  apply both_benign; auto. apply (ext_inv _ _ E).
Qed.

(* ------------------------------------------------------------ lib_call *)
Theorem lib_call_nov l t op s :
  Inv s -> op_safe s op -> (needs_task op = true -> t < length (tasks s)) ->
  nov l t s (fst (lib_call t op s)) (snd (lib_call t op s)).
Proof.
  intros I Hs Hn. destruct op; cbn [lib_call].
  - (* OLog *) apply nov_both, both_same; reflexivity.
  - (* OSleep0 *) apply nov_both, both_refl.
  - (* OSleep *)
    set (f := length (futs s)). set (s1 := fst (new_future s None)).
    change (new_future s None) with (s1, f). cbv beta iota.
    destruct (call_at s1 (Qplus (now s1) d) (HSetResult f 0)) as [s2 h] eqn:Ec. cbn [fst snd].
    apply nov_both. eapply both_trans; [apply both_new_future|].
    assert (E2 : locks s2 = locks s1 /\ futs s2 = futs s1).
    { unfold call_at in Ec. inversion Ec. split; reflexivity. }
    destruct E2 as [El2 Ef2].
    eapply both_trans; [apply both_same; [unfold getl; now rewrite El2|unfold getl; now rewrite El2|exact Ef2]|].
    apply both_setf_flag. reflexivity.
  - (* ONewFut *) cbn [fst snd]. apply nov_both, both_new_future.
  - (* OAwaitFut *)
    apply nov_benign; auto. apply chg_await_fut.
  - (* OAwaitTask *)
    apply nov_benign; auto. apply chg_await_fut.
  - (* OSetResult *)
    pose proof (benign_fut_finish s f (FResult v) I (or_intror Hs)) as B.
    destruct (fut_finish s f (FResult v)) as [s' ok]. cbn [fst snd] in *. now apply nov_benign.
  - (* OSetExc *)
    pose proof (benign_fut_finish s f (FExc e) I (or_intror Hs)) as B.
    destruct (fut_finish s f (FExc e)) as [s' ok]. cbn [fst snd] in *. now apply nov_benign.
  - (* OFutCancel *)
    pose proof (benign_fut_finish s f FCancelled I (or_introl eq_refl)) as B.
    destruct (fut_finish s f FCancelled) as [s' ok]. cbn [fst snd] in *. now apply nov_benign.
  - (* OCancel *)
    pose proof (benign_cancel_task s t0 I) as B.
    destruct (cancel_task s t0) as [s' ok]. cbn [fst snd] in *. now apply nov_benign.
  - (* OEventWait *)
    destruct (evalue (gete s e)); [apply nov_both, both_refl|].
    set (f := length (futs s)). set (s1 := fst (new_future s None)).
    change (new_future s None) with (s1, f). cbv beta iota. cbn [fst snd].
    set (s2 := sete s1 e _).
    apply nov_both. apply both_trans with (s2 := s1); [apply both_new_future|].
    apply both_trans with (s2 := s2); [apply both_same; reflexivity|]. apply both_setf_flag. reflexivity.
  - (* OEventSet *)
    destruct (evalue (gete s e)); [apply nov_both, both_refl|].
    cbn [fst snd]. apply nov_benign; auto.
    set (s1 := sete s e (mkEv true (ewaiters (gete s e)))).
    assert (B1 : benign s s1) by (apply chg_sete; intros g Hg; now left).
    eapply benign_trans; [exact B1|]. apply benign_event_fold; [eapply Inv_benign; eauto|].
    intros g Hg Hl. apply (benign_lockfut s s1 g B1) in Hl. apply (iD2 I _ Hl).
    apply (foreign_ev s e). unfold s1 in Hg. rewrite gete_sete, Nat.eqb_refl in Hg. simpl in Hg.
    destruct (Nat.ltb e (length (events s))); exact Hg.
  - (* OEventClear *) cbn [fst snd]. apply nov_both, both_same; reflexivity.
  - (* OAcquire *) now apply acquire_start_nov.
  - (* ORelease *)
    pose proof (release_pre l s t l0 I) as P. destruct (release s t l0) as [s' r]. cbn [fst snd] in *.
    exact P.
  - (* OCondWait *)
    destruct (negb (cond_locked s c)); [apply nov_both, both_refl|].
    destruct (ckind_ (getc s c)).
    + set (f := length (futs s)). set (s1 := fst (new_future s None)).
      change (new_future s None) with (s1, f). cbv beta iota.
      assert (B1 : benign s s1) by apply chg_new_future.
      pose proof (Inv_benign s s1 B1 I) as I1.
      pose proof (release_pre l s1 t (clock (getc s c)) I1) as P2.
      destruct (release_facts s1 t (clock (getc s c)) I1) as (E2 & _).
      destruct (release s1 t (clock (getc s c))) as [s2 rr]. cbn [fst snd] in *.
      assert (P02 : pre l t s s2).
      { eapply pre_trans; [|exact P2]. apply both_pre, both_new_future. }
      destruct rr as [v|e].
      * cbn [fst snd]. unfold nov. cbn [lres_done]. set (s3 := setc s2 c _).
        eapply pp_both_r; [apply pp_pre; exact P02|].
        apply both_trans with (s2 := s3); [apply both_same; reflexivity|]. apply both_setf_flag. reflexivity.
      * pose proof (benign_cond_p_after s2 c (RExc e) (ext_inv _ _ E2)) as B3.
        destruct (cond_p_after s2 c (RExc e)) as [s3 r3]. cbn [fst snd] in *.
        unfold nov. cbn [lres_done]. eapply pre_both_r; [exact P02|].
        apply both_benign; auto. apply (ext_inv _ _ E2).
    + pose proof (release_pre l s t (clock (getc s c)) I) as P1.
      destruct (release s t (clock (getc s c))) as [s1 rr]. cbn [fst snd] in *.
      destruct rr as [v|e]; [|cbn [fst snd]; exact P1].
      set (f := length (futs s1)). set (s2 := fst (new_future s1 None)).
      change (new_future s1 None) with (s2, f). cbv beta iota. cbn [fst snd].
      unfold nov. cbn [lres_done]. set (s3 := setc s2 c _).
      eapply pp_both_r; [apply pp_pre; exact P1|].
      apply both_trans with (s2 := s2); [apply both_new_future|].
      apply both_trans with (s2 := s3); [apply both_same; reflexivity|]. apply both_setf_flag. reflexivity.
  - (* OCondNotify *)
    destruct (negb (cond_locked s c)); [apply nov_both, both_refl|].
    cbn [fst snd]. apply nov_benign; auto.
    destruct (ckind_ (getc s c)); [now apply benign_notify_p|now apply benign_notify_i].
  - (* OCondNotifyAll *)
    destruct (negb (cond_locked s c)); [apply nov_both, both_refl|].
    cbn [fst snd]. apply nov_benign; auto.
    destruct (ckind_ (getc s c)); [now apply benign_notify_p|now apply benign_notify_i].
  - (* OSleepInsert *)
    cbn [fst snd]. apply nov_benign; auto. apply chg_call_pos.
    split; [exact Logic.I|intros; discriminate].
  - (* OTaskSwitch *)
    pose proof (benign_task_reinsert s t0 0) as B. destruct (task_reinsert s t0 0) as [s1 r]. cbn [fst] in B.
    destruct r as [v|e]; [|now apply nov_benign].
    destruct p as [p|]; cbn [fst snd].
    + apply nov_benign; auto.
      eapply benign_trans; [exact B|]. apply chg_call_pos. split; [exact Logic.I|intros; discriminate].
    + now apply nov_benign.
  - (* OTaskReinsert *)
    pose proof (benign_task_reinsert s t0 p) as B. destruct (task_reinsert s t0 p) as [s1 r]. cbn [fst snd] in *.
    now apply nov_benign.
  - (* OCallSoon *) cbn [fst snd]. apply nov_both, both_same; reflexivity.
  - (* OCallPos *) cbn [fst snd]. apply nov_benign; auto. apply chg_call_pos, cb_ok_log.
  - (* OTaskThrow *)
    pose proof (benign_task_throw s t0 e) as B. destruct (task_throw s t0 e) as [s1 r]. cbn [fst snd] in *.
    now apply nov_benign.
  - (* OTaskInterrupt *)
    apply nov_benign; auto. apply benign_task_interrupt_start.
  - (* OTimeoutEnter *)
    destruct d as [d|]; [|apply nov_both, both_refl].
    destruct (call_at s (Qplus (now s) d) (HTrigger (length (blocks s)))) as [s1 h] eqn:Ec. cbn [fst snd].
    apply nov_both. unfold call_at in Ec. inversion Ec. apply both_same; reflexivity.
  - (* OTimeoutExit *)
    cbn [fst snd]. apply nov_both, both_same; reflexivity.
  - (* OInterruptor *)
    pose proof (benign_interruptor 4 s b 0) as B.
    destruct (interruptor 4 s b 0) as [s1 r]. cbn [fst snd] in *.
    pose proof (interruptor_wrap_fst s1 r) as E.
    destruct (interruptor_wrap s1 r) as [s2 r2]. cbn [fst snd] in *. subst s2.
    now apply nov_benign.
  - (* OSetPrio *)
    destruct (is_prio_task s t); cbn [fst snd]; [|apply nov_both, both_refl].
    apply nov_both, both_same; reflexivity.
  - (* OSelf *) apply nov_both, both_refl.
  - (* OQuery *) cbn [fst snd]. apply nov_both. unfold queue_iterated.
    destruct (ready (addlog s (query_code s))); apply both_same; reflexivity.
  - (* OCallSoonQuery *) cbn [fst snd]. apply nov_both, both_same; reflexivity.
  - (* OCallSoonCancel *) cbn [fst snd]. apply nov_both, both_same; reflexivity.
  - (* OCancelAw *)
    pose proof (benign_cancel_awaitable s f I) as B.
    destruct (cancel_awaitable s f) as [s' ok]. cbn [fst snd] in *. now apply nov_benign.
Qed.

(* ------------------------------------------------------------ frame_resume *)
Theorem frame_resume_nov l t fr inp s :
  Inv s -> t < length (tasks s) -> frame_ok s fr ->
  nov l t s (fst (frame_resume t fr inp s)) (snd (frame_resume t fr inp s)).
Proof.
  intros I Ht Hok. destruct fr; cbn [frame_resume].
  - (* InSleep0 *) apply nov_both, both_refl.
  - (* InFut *)
    destruct inp as [v|e]; [|apply nov_both, both_refl].
    destruct (fdone s f); [|apply nov_both, both_refl].
    pose proof (chg_fut_result (notlf s) s f) as B. destruct (fut_result s f) as [s' r]. cbn [fst snd] in *.
    now apply nov_benign.
  - (* InSleepTimer *) cbn [fst snd]. apply nov_both, both_same; reflexivity.
  - (* InEventWait *) cbn [fst snd]. apply nov_both, both_same; reflexivity.
  - (* InAcquireP *) destruct Hok.
  - (* InAcquireA *)
    pose proof (benign_acquire_a_finish s l0 f inp I Hok) as B.
    destruct (acquire_a_finish s l0 f inp) as [s' r]. cbn [fst snd] in *. now apply nov_benign.
  - (* InCondWaitP *)
    set (s1 := match pq_remove HQ (cpq (getc s c)) (Z.of_nat f) with
               | Some (_, q') => setc s c (getc s c <| cpq := q' |>) | None => s end).
    assert (B1 : benign s s1).
    { unfold s1. destruct (pq_remove HQ (cpq (getc s c)) (Z.of_nat f)) as [[p q']|] eqn:Er; [|apply benign_refl].
      apply chg_setc.
      - intros g Hg. cbn in Hg. left. eapply pq_remove_in; eauto. apply (iB2 I).
      - intros g Hg. now left.
      - intros H. cbn. eapply pq_remove_perm; eauto. }
    pose proof (Inv_benign s s1 B1 I) as I1.
    assert (Ht1 : t < length (tasks s1)) by (pose proof (benign_tasks s s1 B1); lia).
    pose proof (reacq_after_nov l s1 t c None (match inp with RVal _ => RVal 1 | RExc e => RExc e end) I1 Ht1) as N.
    unfold reacq_after in N.
    destruct (reacquire s1 t c true None _) as [s2 r]. destruct r as [rep|y frs].
    + destruct (cond_p_after s2 c rep) as [s3 rep']. cbn [fst snd] in *.
      eapply nov_pre_l; [apply both_pre, both_benign; eauto|exact N].
    + cbn [fst snd] in *. eapply nov_pre_l; [apply both_pre, both_benign; eauto|exact N].
  - (* InReleasedP *)
    destruct inp as [v|e].
    + pose proof (benign_cond_p_after s c (match err with Some e => RExc e | None => body end) I) as B.
      destruct (cond_p_after s c _) as [s1 rep]. cbn [fst snd] in *. now apply nov_benign.
    + destruct (is_cancel e).
      * pose proof (reacq_after_nov l s t c (Some e) body I Ht) as N. unfold reacq_after in N.
        destruct (reacquire s t c true (Some e) body) as [s2 r]. destruct r as [rep|y frs].
        -- destruct (cond_p_after s2 c rep) as [s3 rep']. cbn [fst snd] in *. exact N.
        -- cbn [fst snd] in *. exact N.
      * pose proof (benign_cond_p_after s c (RExc e) I) as B.
        destruct (cond_p_after s c (RExc e)) as [s1 rep]. cbn [fst snd] in *. now apply nov_benign.
  - (* InCondWaitI *)
    set (s1 := setc s c (getc s c <| cdq := filter (fun x => negb (Nat.eqb x f)) (cdq (getc s c)) |>)).
    assert (B1 : benign s s1).
    { apply chg_setc.
      - intros g Hg. now left.
      - intros g Hg. cbn in Hg. apply filter_In in Hg as [Hg _]. now left.
      - intros H. exact H. }
    pose proof (Inv_benign s s1 B1 I) as I1.
    eapply nov_pre_l; [apply both_pre, both_benign; eauto|]. now apply reacquire_nov.
  - (* InReacquireI *)
    destruct inp as [v|e]; [apply nov_both, both_refl|].
    destruct (is_cancel e); [now apply reacquire_nov|apply nov_both, both_refl].
  - (* InIntr *)
    destruct inp as [v|e].
    + pose proof (benign_interruptor 4 s b (S i)) as B.
      destruct (interruptor 4 s b (S i)) as [s1 r]. cbn [fst snd] in *.
      pose proof (interruptor_wrap_fst s1 r) as E.
      destruct (interruptor_wrap s1 r) as [s2 r2]. cbn [fst snd] in *. subst s2.
      now apply nov_benign.
    + destruct (Nat.eqb phase 0 && is_runtime (RExc e) && negb (Nat.eqb i 2))%bool.
      * pose proof (interruptor_wrap_fst s (LSusp YNone [InSleep0; InIntr b i 1])) as E'.
        destruct (interruptor_wrap s (LSusp YNone [InSleep0; InIntr b i 1])) as [s2 r2].
        cbn [fst snd] in *. subst s2. apply nov_both, both_refl.
      * pose proof (interruptor_wrap_fst s (LDone (RExc e))) as E'.
        destruct (interruptor_wrap s (LDone (RExc e))) as [s2 r2].
        cbn [fst snd] in *. subst s2. apply nov_both, both_refl.
Qed.

(* ------------------------------------------------------------ resume_stack *)
Lemma nov_susp_app l t s s' y frs rest : nov l t s s' (LSusp y frs) -> nov l t s s' (LSusp y (frs ++ rest)).
Proof. auto. Qed.

Lemma resume_noacq_nov l frs : forall t inp s,
  Inv s -> t < length (tasks s) -> no_acq frs ->
  (forall l0 f, In (InAcquireA l0 f) frs -> lkind_ (getl s l0) = LPlain) ->
  nov l t s (fst (resume_stack t frs inp s)) (snd (resume_stack t frs inp s)).
Proof.
  induction frs as [|fr rest IH]; intros t inp s I Ht Hn Hk; cbn [resume_stack].
  - cbn [fst snd]. apply nov_both, both_refl.
  - assert (Hok : frame_ok s fr).
    { pose proof (Hn fr (or_introl eq_refl)) as Ha. destruct fr; simpl in *; auto; try discriminate.
      apply (Hk l0 f). now left. }
    destruct (frame_resume_ext t fr inp s I Ht Hok) as [E _].
    pose proof (frame_resume_nov l t fr inp s I Ht Hok) as N.
    destruct (frame_resume t fr inp s) as [s1 r]. cbn [fst snd] in *.
    destruct E as (I1 & Hlen & Hkind & _).
    assert (Hk1 : forall l0 f, In (InAcquireA l0 f) rest -> lkind_ (getl s1 l0) = LPlain).
    { intros l0 f Hin. rewrite Hkind. apply (Hk l0 f). now right. }
    destruct r as [rep|y frs1].
    + eapply nov_pre_l; [exact N|]. apply IH; auto; [lia|apply (no_acq_tail fr rest Hn)].
    + cbn [fst snd]. exact N.
Qed.

(* a frame stack that contains a suspended PriorityLock.acquire() *)
Definition acqfr (frs : list frame) : Prop := exists l0 f had, In (InAcquireP l0 f had) frs.

(* phase 0 (possible only when the stack holds a suspended acquire), then phases 1 and 2 *)
Definition nov3 (l t : nat) (frs : list frame) (s s' : st) (r : lres) : Prop :=
  exists m0, (prc l s m0 \/ (acqfr frs /\ rek l s m0)) /\ nov l t m0 s' r.

Theorem resume_stack_nov l frs t inp s :
  Inv s -> t < length (tasks s) -> pend s frs ->
  nov3 l t frs s (fst (resume_stack t frs inp s)) (snd (resume_stack t frs inp s)).
Proof.
  intros I Ht (Hs & Ha & Hk). destruct Hs as [Hn|(l0 & f & had & rest & -> & Hn)].
  - exists s. split; [left; apply prc_refl|]. now apply resume_noacq_nov.
  - cbn [resume_stack].
    destruct (infut_step t f inp s) as (rep & Er & B & Hw & Hfr).
    destruct (frame_resume t (InFut f) inp s) as [s1 r]. cbn [fst snd] in *. subst r.
    pose proof (Inv_benign s s1 B I) as I1.
    assert (Ht1 : t < length (tasks s1)) by (pose proof (benign_tasks s s1 B); lia).
    destruct (Ha l0 f had (or_intror (or_introl eq_refl))) as [Hf Hnf].
    assert (Hf1 : In f (objs s1 l0)) by (now rewrite (benign_objs s s1 l0 B)).
    assert (Hnf1 : no_frame s1 f) by (intros t0 l1 had0; rewrite Hfr; apply Hnf).
    cbn [frame_resume].
    destruct (lstep_acquire_p_finish s1 t l0 f had rep I1 Ht1 Hf1 Hnf1 Hw) as (L & _ & _).
    pose proof (acq_finish_lead l s1 t l0 f had rep (QD_of_Inv s1 I1)) as P2.
    destruct (acquire_p_finish s1 t l0 f had rep) as [s2 r2]. cbn [fst snd] in *.
    pose proof (ls_inv L) as I2.
    assert (Ht2 : t < length (tasks s2)) by (rewrite (ls_ntasks L); exact Ht1).
    assert (Hk2 : forall l1 f0, In (InAcquireA l1 f0) rest -> lkind_ (getl s2 l1) = LPlain).
    { intros l1 f0 Hin. rewrite (ls_kind L), (benign_kind s s1 l1 B). apply (Hk l1 f0). right. now right. }
    exists s2. split.
    + destruct P2 as [P2|R2].
      * left. eapply prc_trans; [apply both_prc, both_benign; eauto|exact P2].
      * right. split; [exists l0, f, had; right; now left|].
        eapply rek_trans; [apply rek_benign; eauto|exact R2].
    + now apply resume_noacq_nov.
Qed.

(* ------------------------------------------------------------ user code *)
Definition onov (l t : nat) (s s' : st) (o : outcome) : Prop :=
  match o with ODone _ => pre l t s s' | OYield _ _ _ => pp l t s s' end.

Lemma onov_pre_l l t s1 s2 s3 o : pre l t s1 s2 -> onov l t s2 s3 o -> onov l t s1 s3 o.
Proof. intros A B. destruct o; cbn in *; [eapply pre_trans|eapply pp_pre_l]; eauto. Qed.
Lemma onov_pp l t s s' o : onov l t s s' o -> pp l t s s'.
Proof. destruct o; cbn; auto. apply pp_pre. Qed.

Theorem exec_nov l c : forall t s,
  Inv s -> t < length (tasks s) -> exec_ok t c s -> exec_ne t c s ->
  onov l t s (fst (exec t c s)) (snd (exec t c s)).
Proof.
  induction c as [v|e|op k IHk|how child IHc k IHk]; intros t s I Ht Hok Hne.
  - cbn. apply pre_refl.
  - cbn. apply pre_refl.
  - cbn [exec exec_ok exec_ne] in *. destruct Hok as [Hs Hk].
    destruct (lib_call_ext t op s I Hs (fun _ => Ht)) as [E _].
    pose proof (lib_call_nov l t op s I Hs (fun _ => Ht)) as N.
    destruct (lib_call t op s) as [s1 r]. cbn [fst snd] in *. destruct r as [rep|y frs].
    + eapply onov_pre_l; [exact N|].
      apply IHk; auto; [apply (ext_inv _ _ E)|pose proof (ext_tasks _ _ E); lia].
    + cbn [fst snd onov]. exact N.
  - assert (Hsp : forall how', let s1 := fst (spawn_task s how' child) in
              Inv s1 /\ t < length (tasks s1) /\ pre l t s s1).
    { intros how'. cbv zeta. pose proof (benign_spawn_task s how' child I) as B.
      split; [eapply Inv_benign; eauto|]. split; [pose proof (benign_tasks _ _ B); lia|].
      now apply both_pre, both_benign. }
    destruct how.
    + cbn [exec exec_ok exec_ne] in *. destruct (Hsp SPlain) as (I1 & Ht1 & P1).
      destruct (spawn_task s SPlain child) as [s1 t']. cbn [fst] in *.
      eapply onov_pre_l; [exact P1|]. apply IHk; auto.
    + cbn [exec exec_ok exec_ne] in *. destruct (Hsp SPy) as (I1 & Ht1 & P1).
      destruct (spawn_task s SPy child) as [s1 t']. cbn [fst] in *.
      eapply onov_pre_l; [exact P1|]. apply IHk; auto.
    + cbn [exec exec_ok exec_ne] in *. destruct (Hsp (SPrio p)) as (I1 & Ht1 & P1).
      destruct (spawn_task s (SPrio p) child) as [s1 t']. cbn [fst] in *.
      eapply onov_pre_l; [exact P1|]. apply IHk; auto.
    + (* SDescend *)
      cbn [exec exec_ok exec_ne] in *. destruct (Hsp SDescend) as (I1 & Ht1 & P1).
      destruct (spawn_task s SDescend child) as [s1 t']. cbn [fst] in *.
      destruct (lib_call_ext t (OTaskSwitch t' (Some 1)) s1 I1 Logic.I (fun _ => Ht1)) as [E2 _].
      pose proof (lib_call_nov l t (OTaskSwitch t' (Some 1)) s1 I1 Logic.I (fun _ => Ht1)) as N2.
      destruct (lib_call t (OTaskSwitch t' (Some 1)) s1) as [s2 r]. cbn [fst snd] in *.
      assert (Ht2 : t < length (tasks s2)) by (pose proof (ext_tasks _ _ E2); lia).
      eapply onov_pre_l; [exact P1|].
      destruct r as [[v|e]|y frs].
      * eapply onov_pre_l; [exact N2|]. apply IHk; auto. apply (ext_inv _ _ E2).
      * eapply onov_pre_l; [exact N2|]. apply IHk; auto. apply (ext_inv _ _ E2).
      * cbn [fst snd onov]. exact N2.
    + (* SStart *)
      cbn [exec exec_ok exec_ne] in *. destruct (Hsp SStart) as (I1 & Ht1 & P1).
      destruct (spawn_task s SStart child) as [s1 t']. cbn [fst snd onov] in *. now apply pp_pre.
    + (* SEager *) cbn [exec_ne] in Hne. destruct Hne.
Qed.

(* ------------------------------------------------------------ finish_step *)
Theorem finish_step_both l t s o :
  Inv s -> t < length (tasks s) -> (forall y frs k, o = OYield y frs k -> pend s frs) ->
  both l s (finish_step t s o).
Proof.
  intros I Ht P. unfold finish_step.
  pose proof (taskfut_not_lockfut s t I Ht) as Hnl.
  destruct o as [[v|e]|y frs k].
  - set (s1 := sett s t (gett s t <| tcont_ := TFin |>)).
    assert (B1 : benign s s1) by (apply chg_sett; [reflexivity|reflexivity|reflexivity|right; reflexivity]).
    pose proof (Inv_benign _ _ B1 I) as I1.
    apply both_benign; auto. eapply benign_trans; [exact B1|].
    destruct (tmustc (gett s t)).
    + eapply benign_trans; [|apply benign_fut_finish; [|now left]].
      * bsett.
      * eapply Inv_benign; [|exact I1]. bsett.
    + apply benign_fut_finish; [exact I1|right; exact Hnl].
  - set (s1 := sett s t (gett s t <| tcont_ := TFin |>)).
    assert (B1 : benign s s1) by (apply chg_sett; [reflexivity|reflexivity|reflexivity|right; reflexivity]).
    pose proof (Inv_benign _ _ B1 I) as I1.
    apply both_benign; auto. eapply benign_trans; [exact B1|].
    destruct (is_cancel e).
    + eapply benign_trans; [|apply benign_fut_finish; [|now left]].
      * apply chg_setf_flag; reflexivity.
      * eapply Inv_benign; [|exact I1]. apply chg_setf_flag; reflexivity.
    + apply benign_fut_finish; [exact I1|right; exact Hnl].
  - specialize (P y frs k eq_refl).
    set (s1 := sett s t (gett s t <| tcont_ := TSusp frs k |>)).
    assert (I1 : Inv s1) by (apply Inv_store_sett; auto).
    assert (Ht1 : t < length (tasks s1)) by (unfold s1; now rewrite sett_len).
    assert (B01 : both l s s1) by (apply both_same; reflexivity).
    assert (Hsoon : forall e, both l s (call_soon_ s1 (HStep t e))).
    { intros e. eapply both_trans; [exact B01|]. apply both_same; reflexivity. }
    destruct y as [|f]; [apply Hsoon|].
    destruct (fblock (getf s1 f)); [|apply Hsoon].
    destruct (Nat.eqb f (tfut (gett s t))); [apply Hsoon|].
    set (s2 := setf s1 f (getf s1 f <| fblock := false |>)).
    assert (B2 : benign s1 s2) by (apply chg_setf_flag; reflexivity).
    set (s3 := add_done_callback s2 f (CbWakeup t)).
    assert (B3 : benign s2 s3) by (apply chg_add_done_callback; exact Ht1).
    set (s4 := sett s3 t (gett s3 t <| twaiter := Some f |>)).
    assert (B4 : benign s3 s4) by bsett.
    pose proof (benign_trans _ _ _ B2 (benign_trans _ _ _ B3 B4)) as B14.
    assert (K14 : both l s s4) by (eapply both_trans; [exact B01|now apply both_benign]).
    destruct (tmustc (gett s4 t)); [|exact K14].
    pose proof (Inv_benign _ _ B14 I1) as I4.
    pose proof (benign_cancel_awaitable s4 f I4) as B5.
    destruct (cancel_awaitable s4 f) as [s5 ok]. cbn [fst] in B5.
    assert (K15 : both l s s5) by (eapply both_trans; [exact K14|now apply both_benign]).
    destruct ok; [|exact K15].
    eapply both_trans; [exact K15|]. apply both_same; reflexivity.
Qed.

(* ------------------------------------------------------------ step_task *)
(* one step of task t whose stored frames are frs: phase 0 (only if frs holds a suspended
   acquire), then phases 1 and 2 *)
Definition st3 (l t : nat) (frs : list frame) (s s' : st) : Prop :=
  exists m0, (prc l s m0 \/ (acqfr frs /\ rek l s m0)) /\ pp l t m0 s'.

Lemma st3_pp l t frs s s' : pp l t s s' -> st3 l t frs s s'.
Proof. intros H. exists s. split; auto. left. apply prc_refl. Qed.
Lemma st3_both_r l t frs s1 s2 s3 : st3 l t frs s1 s2 -> both l s2 s3 -> st3 l t frs s1 s3.
Proof. intros (m0 & A & B) C. exists m0. split; auto. eapply pp_both_r; eauto. Qed.
Lemma st3_quiet_l l t frs s1 s2 s3 :
  prc l s1 s2 -> rek l s1 s2 -> st3 l t frs s2 s3 -> st3 l t frs s1 s3.
Proof.
  intros P R (m0 & [A|[F A]] & B); exists m0; (split; [|exact B]).
  - left. eapply prc_trans; eauto.
  - right. split; auto. eapply rek_trans; eauto.
Qed.

Lemma step_tail_pp l t frs s0 s3 o :
  st3 l t frs s0 s3 -> Inv s3 -> t < length (tasks s3) -> (forall y frs k, o = OYield y frs k -> pend s3 frs) ->
  st3 l t frs s0 ((finish_step t s3 o) <| current := None |>).
Proof.
  intros E I3 Ht P. pose proof (finish_step_both l t s3 o I3 Ht P) as B.
  eapply st3_both_r; [exact E|]. eapply both_trans; [exact B|]. apply both_same; reflexivity.
Qed.

Lemma resume_then_exec_pp l t frs inp s k :
  Inv s -> t < length (tasks s) -> pend s frs ->
  (let '(s1, r) := resume_stack t frs inp s in
   match r with LDone rep => exec_ok t (k rep) s1 | LSusp _ _ => True end) ->
  (let '(s1, r) := resume_stack t frs inp s in
   match r with LDone rep => exec_ne t (k rep) s1 | LSusp _ _ => True end) ->
  let '(s3, o) := (let '(s1, r) := resume_stack t frs inp s in
                   match r with
                   | LDone rep => exec t (k rep) s1
                   | LSusp y frs' => (s1, OYield y frs' k) end) in
  st3 l t frs s s3.
Proof.
  intros I Ht P Hok Hne.
  destruct (resume_stack_ext frs t inp s I Ht P) as [E1 _].
  pose proof (resume_stack_nov l frs t inp s I Ht P) as (m0 & L0 & N1).
  destruct (resume_stack t frs inp s) as [s1 r]. cbn [fst snd] in *.
  assert (Ht1 : t < length (tasks s1)) by (pose proof (ext_tasks _ _ E1); lia).
  destruct r as [rep|y frs1].
  - pose proof (exec_nov l (k rep) t s1 (ext_inv _ _ E1) Ht1 Hok Hne) as N2.
    destruct (exec t (k rep) s1) as [s3 o]. cbn [fst snd] in *.
    exists m0. split; [exact L0|]. eapply pp_pre_l; [exact N1|]. eapply onov_pp; eauto.
  - exists m0. split; [exact L0|]. exact N1.
Qed.

Theorem step_task_pp l t exc s :
  Inv s -> t < length (tasks s) -> step_ok t exc s -> step_ne t exc s ->
  st3 l t (tframes s t) s (step_task t exc s).
Proof.
  intros I Ht Hok Hne.
  unfold step_task, step_ok, step_ne in *.
  destruct (tdone s t); [apply st3_pp, pp_both, both_same; reflexivity|].
  set (exc' := if tmustc (gett s t)
               then match exc with
                    | Some e => if is_cancel e then Some e else Some ECancelled
                    | None => Some ECancelled end
               else exc) in *.
  set (s1 := sett s t (gett s t <| tmustc := false |> <| twaiter := None |> <| tcont_ := TRun |>)) in *.
  set (s2 := s1 <| current := Some t |>) in *.
  assert (B2 : benign s s2).
  { apply benign_trans with (s2 := s1); [|apply chg_core_eq; reflexivity].
    apply chg_sett; [reflexivity|reflexivity|reflexivity|right; reflexivity]. }
  pose proof (ext_benign _ _ I B2) as E2. pose proof (ext_inv _ _ E2) as I2.
  assert (B02 : both l s s2) by (apply both_same; reflexivity).
  assert (P02 : pre l t s s2) by (apply both_pre, B02).
  assert (C02 : prc l s s2) by (apply both_prc, B02).
  assert (R02 : rek l s s2) by (apply rek_same; reflexivity).
  assert (Ht2 : t < length (tasks s2)) by (pose proof (ext_tasks _ _ E2); lia).
  assert (Hfr2 : forall t0, tframes s2 t0 = if Nat.eqb t t0 then [] else tframes s t0).
  { intros t0. unfold tframes. change (gett s2 t0) with (gett s1 t0). unfold s1. rewrite gett_sett.
    apply Nat.ltb_lt in Ht. rewrite Ht, andb_true_r. destruct (Nat.eqb t t0); reflexivity. }
  assert (P2 : pend s2 (tframes s t)).
  { split; [apply (iF1 I)|]. split.
    - intros l0 f had Hin. split; [apply (iF2 I _ _ _ _ Hin)|].
      intros t0 l1 had0 H0. rewrite Hfr2 in H0. destruct (Nat.eqb t t0) eqn:E; [destruct H0|].
      apply Nat.eqb_neq in E. apply E. eapply (iF3 I); eauto.
    - intros l0 f Hin. apply (iF4 I _ _ _ Hin). }
  unfold tframes in P2 |- *.
  destruct (tcont_ (gett s t)) as [c|frs k|y frs k| |]; cbn [frames_of] in P2 |- *.
  - (* TNew *)
    destruct exc' as [e|].
    + apply step_tail_pp; auto; [now apply st3_pp, pp_pre|intros; discriminate].
    + destruct (exec_ext c t s2 I2 Ht2 Hok) as [E3 P3].
      pose proof (exec_nov l c t s2 I2 Ht2 Hok Hne) as N3.
      destruct (exec t c s2) as [s3 o]. cbn [fst snd] in *.
      apply step_tail_pp; [|apply (ext_inv _ _ E3)|pose proof (ext_tasks _ _ E3); lia|exact P3].
      apply st3_pp. eapply pp_pre_l; [exact P02|]. eapply onov_pp; eauto.
  - (* TSusp *)
    pose proof (resume_then_exec t frs (match exc' with None => RVal 0 | Some e => RExc e end) s s2 k E2 Ht2 P2 Hok) as H.
    pose proof (resume_then_exec_pp l t frs (match exc' with None => RVal 0 | Some e => RExc e end) s2 k
                  I2 Ht2 P2 Hok Hne) as HW.
    destruct (let '(s1, r) := resume_stack t frs _ s2 in _) as [s3 o].
    destruct H as (E3 & Ht3 & P3). apply step_tail_pp; auto; [|apply (ext_inv _ _ E3)].
    eapply st3_quiet_l; eauto.
  - (* TEager *)
    destruct exc' as [e|].
    + pose proof (resume_then_exec t frs (RExc e) s s2 k E2 Ht2 P2 Hok) as H.
      pose proof (resume_then_exec_pp l t frs (RExc e) s2 k I2 Ht2 P2 Hok Hne) as HW.
      destruct (let '(s1, r) := resume_stack t frs _ s2 in _) as [s3 o].
      destruct H as (E3 & Ht3 & P3). apply step_tail_pp; auto; [|apply (ext_inv _ _ E3)].
      eapply st3_quiet_l; eauto.
    + set (s3 := match y with YFut f => setf s2 f (getf s2 f <| fblock := true |>) | YNone => s2 end).
      assert (B3 : benign s2 s3).
      { unfold s3. destruct y; [apply benign_refl|apply chg_setf_flag; reflexivity]. }
      apply step_tail_pp.
      * apply st3_pp. eapply pp_pre_l; [exact P02|]. apply pp_both. now apply both_benign.
      * eapply Inv_benign; eauto.
      * pose proof (benign_tasks _ _ B3). lia.
      * intros y0 frs0 k0 H. inversion H; subst. eapply pend_benign; eauto.
  - (* TRun *) apply step_tail_pp; auto; [now apply st3_pp, pp_pre|intros; discriminate].
  - (* TFin *) apply step_tail_pp; auto; [now apply st3_pp, pp_pre|intros; discriminate].
Qed.

(* ------------------------------------------------------------ the loop *)
(* one scheduler action, seen from lock l: phase 0 is possible only in a step of a task that was
   suspended in PriorityLock.acquire() when the action began *)
Definition pp3 (l : nat) (s s' : st) : Prop :=
  exists m, post l m s' /\
    (prc l s m \/ exists t m0, acqfr (tframes s t) /\ rek l s m0 /\ pre l t m0 m).

Lemma st3_pp3 l t s s' : st3 l t (tframes s t) s s' -> pp3 l s s'.
Proof.
  intros (m0 & A & m & B & C). exists m. split; auto. destruct A as [A|[F A]].
  - left. eapply prc_trans; [exact A|]. apply (pre_prc _ _ _ _ B).
  - right. exists t, m0. auto.
Qed.
Lemma pp_pp3 l t s s' : pp l t s s' -> pp3 l s s'.
Proof. intros (m & A & B). exists m. split; auto. left. apply (pre_prc _ _ _ _ A). Qed.
Lemma both_pp3 l s s' : both l s s' -> pp3 l s s'.
Proof. intros B. apply (pp_pp3 l 0), pp_both, B. Qed.
Lemma pp3_quiet_l l s1 s2 s3 :
  prc l s1 s2 -> rek l s1 s2 -> (forall t, acqfr (tframes s2 t) -> acqfr (tframes s1 t)) ->
  pp3 l s2 s3 -> pp3 l s1 s3.
Proof.
  intros P R F (m & A & [B|(t & m0 & F2 & B & C)]); exists m; (split; [exact A|]).
  - left. eapply prc_trans; eauto.
  - right. exists t, m0. split; [now apply F|]. split; auto. eapply rek_trans; eauto.
Qed.

Lemma benign_acqfr s s' t : benign s s' -> t < length (tasks s) -> acqfr (tframes s' t) -> acqfr (tframes s t).
Proof.
  intros B Ht F. destruct (c_task B t Ht) as (_ & _ & _ & [E|E]); rewrite E in F; auto.
  destruct F as (l0 & f & had & []).
Qed.

Theorem wakeup_pp l t f s :
  Inv s -> t < length (tasks s) -> wakeup_ok t f s -> wakeup_ne t f s -> pp3 l s (wakeup t f s).
Proof.
  intros I Ht Hok Hne. unfold wakeup, wakeup_ok, wakeup_ne in *. destruct (fstate_ (getf s f)).
  - now apply (st3_pp3 l t), step_task_pp.
  - now apply (st3_pp3 l t), step_task_pp.
  - now apply (st3_pp3 l t), step_task_pp.
  - pose proof (chg_fut_result (notlf s) s f) as B. destruct (fut_result s f) as [s' r]. cbn [fst] in B.
    assert (Ht' : t < length (tasks s')) by (pose proof (benign_tasks _ _ B); lia).
    apply pp3_quiet_l with (s2 := s').
    + apply both_prc, both_benign; auto.
    + apply rek_benign; auto.
    + intros t0 F. destruct (Nat.lt_ge_cases t0 (length (tasks s))) as [H0|H0].
      * eapply benign_acqfr; eauto.
      * exfalso. destruct (c_newtask B t0 H0) as (_ & E & _). rewrite E in F.
        destruct F as (l0 & f0 & had & []).
    + apply (st3_pp3 l t), step_task_pp; auto. eapply Inv_benign; eauto.
Qed.

Theorem run_callback_pp l c s :
  Inv s -> In c (hcbs s) -> run_callback_ok c s -> run_callback_ne c s -> pp3 l s (run_callback c s).
Proof.
  intros I Hin Hok Hne. pose proof (iE1 I _ Hin) as Hc.
  destruct c; cbn [run_callback run_callback_ok run_callback_ne cb_task_ok] in *.
  - now apply (st3_pp3 l t), step_task_pp.
  - now apply wakeup_pp.
  - pose proof (benign_task_reinsert s t p) as B. destruct (task_reinsert s t p) as [s' r]. cbn [fst] in B.
    destruct r; [now apply both_pp3, both_benign|].
    apply both_pp3. eapply both_trans; [apply both_benign; eauto|]. apply both_same; reflexivity.
  - apply both_pp3, both_same; reflexivity.
  - apply both_pp3, both_benign; auto. apply benign_fut_finish; auto. right.
    intros Hl. apply (iD2 I _ Hl). eapply foreign_timer; eauto.
  - apply both_pp3, both_benign; auto. now apply benign_new_task.
  - apply both_pp3. unfold queue_iterated.
    destruct (ready (addlog s (query_code s))); apply both_same; reflexivity.
  - apply both_pp3, both_benign; auto. now apply benign_cancel_task.
Qed.

Theorem run_one_pp l s : Inv s -> run_one_ok s -> run_one_ne s -> pp3 l s (run_one s).
Proof.
  intros I Hok Hne. unfold run_one, run_one_ok, run_one_ne in *.
  destruct (rq_popleft (ready s)) as [[h r]|]; [|apply both_pp3, both_refl].
  set (s1 := s <| ready := r |>) in *.
  assert (B1 : benign s s1) by (apply chg_core_eq; reflexivity).
  destruct (hcancelled (geth s1 h)) eqn:Ec; [apply both_pp3, both_same; reflexivity|].
  apply pp3_quiet_l with (s2 := s1);
    [apply both_prc, both_same; reflexivity|apply rek_same; reflexivity|intros t F; exact F|].
  apply run_callback_pp; auto.
  - eapply Inv_benign; eauto.
  - change (hcbs s1) with (hcbs s). change (geth s1 h) with (geth s h) in *.
    destruct (Nat.lt_ge_cases h (length (handles s))) as [Hh|Hh].
    + unfold hcbs, geth. apply in_map. now apply nth_In.
    + unfold geth in Ec. rewrite nth_overflow in Ec by auto. discriminate.
Qed.

Theorem do_action_pp l s a : Inv s -> action_ok s a -> action_ne s a -> pp3 l s (do_action s a).
Proof.
  intros I Hok Hne. destruct a; cbn [do_action action_ok action_ne] in *.
  - now apply run_one_pp.
  - apply both_pp3, both_benign; auto. apply benign_begin_iteration.
  - apply both_pp3, both_same; reflexivity.
  - apply both_pp3, both_benign; auto. now apply benign_spawn_task.
  - destruct Hok as [Hs Hn]. apply (pp_pp3 l 0). eapply nov_pp. apply (lib_call_nov l 0 op s I Hs).
    intros H. congruence.
Qed.
