(* C16, timing half: the timer mechanism behind task_timeout.

   For a fixed block b with trigger handle h (its call_later handle) and deadline w, the
   invariant [Inv] says: the trigger handle carries HTrigger b, it is cancelled exactly when the
   block is inactive, while the block is active the entry (w, h) is in the loop's timer heap,
   no other heap entry has handle h, h is not in the ready queue, and no library frame of any
   task could cancel it.  [Inv] is preserved by every library call, frame resumption, user
   program, task step, ready handle, and by every loop iteration start whose clock is still
   before the deadline ([armed_actions]).  Same proof architecture as FrameFacts.v. *)
From Coq Require Import QArith Sorting.Permutation.
From RecordUpdate Require Import RecordUpdate.
From Asynkit Require Import Base.Prelude Queue.ListFacts Queue.PQ Queue.PosPQ Queue.Exec
     Queue.Heap Queue.HeapqModel Queue.HeapqProofs
     Sched.Model Sched.PartTables Sched.PartitionProofs Sched.FrameFacts.
Import RecordSetNotations.
Open Scope nat_scope.

(* ------------------------------------------------------------ the timer order *)
Lemma timer_lt_asym a b : timer_lt a b = true -> timer_lt b a = false.
Proof.
  unfold timer_lt, qltb. rewrite negb_true_iff, negb_false_iff. intros E.
  apply Qle_bool_iff. destruct (Qlt_le_dec (fst b) (fst a)) as [L|L]; [|exact L].
  apply Qlt_le_weak in L. apply Qle_bool_iff in L. congruence.
Qed.
Lemma timer_ge x y : timer_lt x y = false <-> (fst y <= fst x)%Q.
Proof. unfold timer_lt, qltb. rewrite negb_false_iff. apply Qle_bool_iff. Qed.
Lemma timer_le_trans a b c : timer_lt b a = false -> timer_lt c b = false -> timer_lt c a = false.
Proof. rewrite !timer_ge. intros A B. eapply Qle_trans; eauto. Qed.

Definition theap (l : list (Q * nat)) : Prop := is_heap timer_lt l.

Lemma theap_push l x : theap l -> theap (HeapqModel.heappush timer_lt tdflt l x).
Proof. apply heappush_heap; [exact timer_lt_asym|exact timer_le_trans]. Qed.
Lemma tperm_push l x : Permutation (HeapqModel.heappush timer_lt tdflt l x) (x :: l).
Proof. apply heappush_perm; first [exact timer_lt_asym|exact timer_le_trans]. Qed.
Lemma theap_pop l e l' :
  theap l -> HeapqModel.heappop timer_lt tdflt l = Some (e, l') -> hd_error l = Some e /\ theap l'.
Proof. apply heappop_heap; [exact timer_lt_asym|exact timer_le_trans]. Qed.
Lemma tperm_pop l e l' : HeapqModel.heappop timer_lt tdflt l = Some (e, l') -> Permutation l (e :: l').
Proof. apply heappop_perm; first [exact timer_lt_asym|exact timer_le_trans]. Qed.
(* the head of the heap is an earliest deadline *)
Lemma theap_min e l : theap (e :: l) -> forall x, In x (e :: l) -> (fst e <= fst x)%Q.
Proof.
  intros Hh x Hx.
  assert (F : Forall (hle timer_lt e) (e :: l)).
  { apply heap_min_cons; auto.
    - intros a. unfold hle. apply timer_ge. apply Qle_refl.
    - intros a0 b0 c0. unfold hle. intros A B. eapply timer_le_trans; eauto. }
  rewrite Forall_forall in F. specialize (F x Hx). unfold hle in F. apply timer_ge in F. exact F.
Qed.

(* ------------------------------------------------------------ frames *)
Definition frames_of (k : tcont) : list frame :=
  match k with TSusp frs _ | TEager _ frs _ => frs | _ => [] end.

(* all sleep frames refer to handles that exist: holds in every reachable state (it is part of
   C09's invariant, see [InvC_sleep_wf]) *)
Definition sleep_wf (s : st) : Prop :=
  forall t h', In (InSleepTimer h') (frames_of (tcont_ (gett s t))) -> h' < length (handles s).

Section Timer.
Variable qok : rq -> Prop.
Hypothesis QS : QSpec qok.
Variables (b h : nat) (w : Q).

Definition fr_ok (n : nat) (fr : frame) : Prop :=
  match fr with InSleepTimer h' => h' < n /\ h' <> h | _ => True end.
Definition frs_ok (n : nat) (frs : list frame) : Prop := Forall (fr_ok n) frs.
Definition tc_ok (n : nat) (k : tcont) : Prop := frs_ok n (frames_of k).

Lemma fr_ok_mono n m fr : n <= m -> fr_ok n fr -> fr_ok m fr.
Proof. destruct fr; simpl; auto. intros L [A B]. split; [lia|auto]. Qed.
Lemma frs_ok_mono n m frs : n <= m -> frs_ok n frs -> frs_ok m frs.
Proof. intros L. apply Forall_impl. intros; eapply fr_ok_mono; eauto. Qed.
Lemma tc_ok_mono n m k : n <= m -> tc_ok n k -> tc_ok m k.
Proof. apply frs_ok_mono. Qed.
Lemma nosleep_frs_ok n frs : nosleep frs -> frs_ok n frs.
Proof. apply Forall_impl. intros [] Hn; simpl; auto. exfalso. eapply Hn; eauto. Qed.

(* ------------------------------------------------------------ the invariant *)
Record Inv (s : st) : Prop := {
  v_q : qok (ready s);
  v_nr : ~ In h (rq_items (ready s));                       (* the trigger is not ready *)
  v_h : h < length (handles s);
  v_h0 : 0 < h;
  v_cb : hcb (geth s h) = HTrigger b;
  v_uq : forall x, x < length (handles s) -> hcb (geth s x) = HTrigger b -> x = h;  (* the only trigger of b *)
  v_b : b < length (blocks s);
  v_bt : btimer (getb s b) = h;
  v_inj : forall b', b' < length (blocks s) -> b' <> b -> btimer (getb s b') <> h;
  v_c : hcancelled (geth s h) = negb (bactive (getb s b));  (* cancelled iff the block was left *)
  v_frm : forall t, tc_ok (length (handles s)) (tcont_ (gett s t));
  v_tl : forall e, In e (timers s) -> snd e < length (handles s);
  v_nd : NoDup (map snd (timers s));
  v_hp : theap (timers s);
  v_in : bactive (getb s b) = true -> In (w, h) (timers s); (* armed while the block is active *)
  v_w : forall w', In (w', h) (timers s) -> w' = w
}.

(* K s0 s: s is reached from s0, the invariant holds in s *)
Definition K (s0 s : st) : Prop :=
  Inv s /\ length (handles s0) <= length (handles s) /\ now s = now s0.

Lemma K_refl s : Inv s -> K s s.
Proof. intros I. split; auto. Qed.
Lemma K_inv s0 s : K s0 s -> Inv s. Proof. intros [I _]; exact I. Qed.
Lemma K_trans s1 s2 s3 : K s1 s2 -> K s2 s3 -> K s1 s3.
Proof. intros (A & B & C) (D & E & F). split; auto. split; [lia|congruence]. Qed.
Lemma K_weaken s0 s1 s : K s0 s1 -> K s1 s -> K s0 s.
Proof. apply K_trans. Qed.

(* components untouched *)
Lemma K_same s0 s s' :
  ready s' = ready s -> handles s' = handles s -> blocks s' = blocks s ->
  (forall t, tcont_ (gett s' t) = tcont_ (gett s t)) -> timers s' = timers s -> now s' = now s ->
  K s0 s -> K s0 s'.
Proof.
  intros Er Eh Eb Et Em En (I & L & N). split; [|rewrite Eh, En; auto].
  destruct I. constructor; unfold geth, getb in *; rewrite ?Er, ?Eh, ?Eb, ?Em; auto.
  intros t. rewrite Et. auto.
Qed.

Lemma K_setf s0 s f x : K s0 s -> K s0 (setf s f x).
Proof. apply K_same; reflexivity. Qed.
Lemma K_setl s0 s l x : K s0 s -> K s0 (setl s l x).
Proof. apply K_same; reflexivity. Qed.
Lemma K_setc s0 s l x : K s0 s -> K s0 (setc s l x).
Proof. apply K_same; reflexivity. Qed.
Lemma K_sete s0 s l x : K s0 s -> K s0 (sete s l x).
Proof. apply K_same; reflexivity. Qed.
Lemma K_adderr s0 s e : K s0 s -> K s0 (adderr s e).
Proof. apply K_same; reflexivity. Qed.
Lemma K_addlog s0 s n : K s0 s -> K s0 (addlog s n).
Proof. apply K_same; reflexivity. Qed.
Lemma K_current s0 s c : K s0 s -> K s0 (s <| current := c |>).
Proof. apply K_same; reflexivity. Qed.
Lemma K_futs s0 s x : K s0 s -> K s0 (s <| futs := x |>).
Proof. apply K_same; reflexivity. Qed.
Lemma K_new_future s0 s o : K s0 s -> K s0 (fst (new_future s o)).
Proof. apply K_same; reflexivity. Qed.
Lemma K_new_future_eq s0 s o s' f : new_future s o = (s', f) -> K s0 s -> K s0 s'.
Proof. intros E. inversion E. apply K_same; reflexivity. Qed.

(* the task table *)
Lemma K_sett s0 s t x :
  (tcont_ x = tcont_ (gett s t) \/ tc_ok (length (handles s)) (tcont_ x)) -> K s0 s -> K s0 (sett s t x).
Proof.
  intros Hx (I & L & N). split; [|auto].
  destruct I. constructor; auto. intros t'. rewrite gett_sett.
  destruct (_ && _) eqn:E; auto.
  destruct Hx as [-> | Hx]; auto.
Qed.
Lemma K_tasks_app s0 s x :
  tc_ok (length (handles s)) (tcont_ x) -> K s0 s -> K s0 (s <| tasks := tasks s ++ [x] |>).
Proof.
  intros Hx (I & L & N). split; [|auto].
  destruct I. constructor; auto. intros t'. unfold gett. cbn.
  destruct (Nat.lt_ge_cases t' (length (tasks s))) as [Hl|Hl].
  - rewrite app_nth1 by exact Hl. apply v_frm0.
  - destruct (Nat.eq_dec t' (length (tasks s))) as [->|Hn].
    + rewrite nth_middle. apply Hx.
    + rewrite nth_overflow by (rewrite app_length; simpl; lia). constructor.
Qed.

(* the ready queue *)
Lemma K_ready s0 s r :
  qok r -> ~ In h (rq_items r) -> K s0 s -> K s0 (s <| ready := r |>).
Proof. intros Hq Hn (I & L & N). split; [|auto]. destruct I. constructor; auto. Qed.

Lemma q_app_in r x p y : qok r -> In y (rq_items (rq_append r x p)) -> y = x \/ In y (rq_items r).
Proof.
  intros Hq Hy. destruct (q_append QS r x p Hq) as [_ P].
  apply (Permutation_in _ P) in Hy. destruct Hy; auto.
Qed.
Lemma q_pop_in r x r' y : qok r -> rq_popleft r = Some (x, r') ->
  qok r' /\ In x (rq_items r) /\ (In y (rq_items r') -> In y (rq_items r)).
Proof.
  intros Hq E. destruct (q_popleft QS r x r' Hq E) as [Hq' P]. split; auto. split.
  - apply (Permutation_in _ (Permutation_sym P)). left; auto.
  - intros Hy. apply (Permutation_in _ (Permutation_sym P)). right; auto.
Qed.
Lemma q_find_in r key x r' y : qok r -> rq_find r key true = Some (x, r') ->
  qok r' /\ In x (rq_items r) /\ (In y (rq_items r') -> In y (rq_items r)).
Proof.
  intros Hq E. destruct (q_find QS r key x r' Hq E) as (Hq' & _ & P). split; auto. split.
  - apply (Permutation_in _ (Permutation_sym P)). left; auto.
  - intros Hy. apply (Permutation_in _ (Permutation_sym P)). right; auto.
Qed.
Lemma q_remove_in r x r' y : qok r -> rq_remove r x = Some r' ->
  qok r' /\ (In y (rq_items r') -> In y (rq_items r)).
Proof.
  intros Hq E. destruct (q_remove QS r x r' Hq E) as (Hq' & P). split; auto.
  intros Hy. apply (Permutation_in _ (Permutation_sym P)). right; auto.
Qed.
Lemma q_insert_in r k x y : qok r ->
  qok (rq_insert_pos r k x) /\ (In y (rq_items (rq_insert_pos r k x)) -> y = x \/ In y (rq_items r)).
Proof.
  intros Hq. destruct (q_insert QS r k x Hq) as (Hq' & P). split; auto.
  intros Hy. apply (Permutation_in _ P) in Hy. destruct Hy; auto.
Qed.

Lemma K_call_soon s0 s c : c <> HTrigger b -> K s0 s -> K s0 (call_soon_ s c).
Proof.
  intros Hc (I & L & N). split; [|cbn; rewrite app_length; simpl; split; [lia|auto]].
  destruct I. unfold call_soon_, call_soon. cbn [fst].
  match goal with |- Inv (?s1 <| ready := rq_append _ _ ?p |>) => set (pp := p) end.
  constructor; cbn; unfold geth, getb in *; cbn; rewrite ?app_length; simpl; auto; try lia.
  - apply (q_append QS); auto.
  - intros Hy. apply q_app_in in Hy; auto. destruct Hy; [lia|auto].
  - rewrite app_nth1 by lia. auto.
  - intros x Hx Hcb. destruct (Nat.lt_ge_cases x (length (handles s))) as [Hl|Hl].
    + rewrite app_nth1 in Hcb by lia. apply v_uq0; auto.
    + replace x with (length (handles s)) in Hcb by lia. rewrite nth_middle in Hcb. simpl in Hcb. congruence.
  - rewrite app_nth1 by lia. auto.
  - intros t. eapply tc_ok_mono; [|apply v_frm0]. lia.
  - intros e He. specialize (v_tl0 e He). lia.
Qed.

Lemma K_cancel_handle s0 s h' : h' <> h -> K s0 s -> K s0 (cancel_handle s h').
Proof.
  intros Hn (I & L & N). split; [|cbn; rewrite set_nth_length; auto].
  destruct I. unfold cancel_handle.
  constructor; cbn; unfold geth, getb in *; cbn; rewrite ?set_nth_length; auto.
  - rewrite nth_set_nth_other by auto. auto.
  - intros x Hx Hcb. apply v_uq0; auto. rewrite nth_set_nth in Hcb. destruct (_ && _) eqn:E; auto.
    cbn in Hcb. apply andb_true_iff in E. destruct E as [E _]. apply Nat.eqb_eq in E. subst x. exact Hcb.
  - rewrite nth_set_nth_other by auto. auto.
Qed.

Lemma K_call_at_eq s0 s w' c s' h' : c <> HTrigger b -> call_at s w' c = (s', h') -> K s0 s ->
  K s0 s' /\ h' = length (handles s) /\ length (handles s') = S (length (handles s)).
Proof.
  intros Hc E (I & L & N). unfold call_at in E. inversion E; subst; clear E.
  split; [|cbn; rewrite app_length; simpl; split; [reflexivity|lia]].
  split; [|cbn; rewrite app_length; simpl; split; [lia|auto]].
  destruct I.
  pose proof (tperm_push (timers s) (w', length (handles s))) as P.
  constructor; cbn; unfold geth, getb in *; cbn; rewrite ?app_length; simpl; auto; try lia.
  - rewrite app_nth1 by lia. auto.
  - intros x Hx Hcb. destruct (Nat.lt_ge_cases x (length (handles s))) as [Hl|Hl].
    + rewrite app_nth1 in Hcb by lia. apply v_uq0; auto.
    + replace x with (length (handles s)) in Hcb by lia. rewrite nth_middle in Hcb. simpl in Hcb. congruence.
  - rewrite app_nth1 by lia. auto.
  - intros t. eapply tc_ok_mono; [|apply v_frm0]. lia.
  - intros e He. apply (Permutation_in _ P) in He. destruct He as [<-|He]; simpl; [lia|].
    specialize (v_tl0 e He). lia.
  - eapply Permutation_NoDup; [apply Permutation_sym, Permutation_map, P|]. simpl. constructor; auto.
    intros Hi. apply in_map_iff in Hi. destruct Hi as (e & E1 & E2). specialize (v_tl0 e E2). lia.
  - apply theap_push; auto.
  - intros Ha. apply (Permutation_in _ (Permutation_sym P)). right. auto.
  - intros w0 Hi. apply (Permutation_in _ P) in Hi. destruct Hi as [Hi|Hi]; [inversion Hi; lia|auto].
Qed.

Lemma K_call_pos s0 s p c : c <> HTrigger b -> K s0 s -> K s0 (call_pos s p c).
Proof.
  intros Hc H. unfold call_pos. rewrite call_soon_eq.
  pose proof (K_call_soon _ _ c Hc H) as H1. destruct (rq_remove _ _) as [r|] eqn:R; [|exact H1].
  pose proof (K_inv _ _ H1) as I1. pose proof (K_inv _ _ H) as I0.
  destruct (q_remove_in _ _ _ h (v_q _ I1) R) as [Hq Hin].
  destruct (q_insert_in r p (length (handles s)) h Hq) as [Hq2 Hin2].
  apply K_ready; auto. intros Hy. apply Hin2 in Hy. destruct Hy as [Hy|Hy].
  - pose proof (v_h _ I0). lia.
  - apply (v_nr _ I1). auto.
Qed.

(* the two operations on timeout blocks *)
Lemma K_enter s0 s t h' :
  h' = length (handles s) - 1 -> h < h' -> K s0 s ->
  K s0 (s <| blocks := blocks s ++ [mkBlk t true h'] |>).
Proof.
  intros Eh Hlt (I & L & N). split; [|auto].
  destruct I. constructor; cbn; unfold geth, getb in *; cbn; rewrite ?app_length; simpl; auto; try lia.
  - rewrite app_nth1 by lia. auto.
  - intros b' Hb' Hn. destruct (Nat.lt_ge_cases b' (length (blocks s))) as [Hl|Hl].
    + rewrite app_nth1 by lia. auto.
    + replace b' with (length (blocks s)) by lia. rewrite nth_middle. simpl. lia.
  - rewrite app_nth1 by lia. auto.
  - rewrite app_nth1 by lia. auto.
Qed.

Definition exit_st (s : st) (b' : nat) : st :=
  cancel_handle (setb s b' (mkBlk (btask (getb s b')) false (btimer (getb s b')))) (btimer (getb s b')).

Lemma K_exit s0 s b' : K s0 s -> K s0 (exit_st s b').
Proof.
  intros H. destruct (Nat.eq_dec b' b) as [->|Hn].
  - (* the block itself: deactivated and its handle cancelled *)
    destruct H as (I & L & N). split; [|cbn; rewrite set_nth_length; auto].
    destruct I. unfold exit_st, cancel_handle, setb.
    constructor; cbn; unfold geth, getb in *; cbn; rewrite ?set_nth_length; auto.
    + rewrite v_bt0, nth_set_nth_same by lia. cbn. auto.
    + intros x Hx Hcb. apply v_uq0; auto. rewrite nth_set_nth in Hcb. destruct (_ && _) eqn:E; auto.
      cbn in Hcb. apply andb_true_iff in E. destruct E as [E _]. apply Nat.eqb_eq in E. subst x. exact Hcb.
    + rewrite nth_set_nth_same by lia. auto.
    + intros b' Hb' Hn. rewrite nth_set_nth_other by auto. auto.
    + rewrite v_bt0, !nth_set_nth_same by lia. reflexivity.
    + rewrite nth_set_nth_same by lia. cbn. discriminate.
  - (* another block (or none: handle 0) *)
    assert (Hne : btimer (getb s b') <> h).
    { pose proof (K_inv _ _ H) as I. destruct (Nat.lt_ge_cases b' (length (blocks s))) as [Hl|Hl].
      - apply (v_inj _ I); auto.
      - unfold getb. rewrite nth_overflow by lia. simpl. pose proof (v_h0 _ I). lia. }
    unfold exit_st. apply K_cancel_handle; auto.
    destruct H as (I & L & N). split; [|auto].
    destruct I. unfold setb.
    constructor; cbn; unfold geth, getb in *; cbn; rewrite ?set_nth_length; auto.
    + rewrite nth_set_nth_other by auto. auto.
    + intros b0 Hb0 Hn0. rewrite nth_set_nth. destruct (_ && _) eqn:E; auto.
    + rewrite nth_set_nth_other by auto. auto.
    + rewrite nth_set_nth_other by auto. auto.
Qed.


Lemma K_call_at_K s0 s w' c s' h' : c <> HTrigger b -> call_at s w' c = (s', h') -> K s0 s -> K s0 s'.
Proof. intros Hc E H. eapply K_call_at_eq; eauto. Qed.

Lemma K_find s0 s key x r :
  rq_find (ready s) key true = Some (x, r) -> K s0 s -> K s0 (s <| ready := r |>) /\ x <> h.
Proof.
  intros E H. pose proof (K_inv _ _ H) as I.
  destruct (q_find_in _ _ _ _ h (v_q _ I) E) as (Hq & Hx & Hin). split.
  - apply K_ready; auto. intros Hy. apply (v_nr _ I). auto.
  - intros ->. apply (v_nr _ I). auto.
Qed.

Lemma K_reinsert s0 s r p x : qok r -> ~ In h (rq_items r) -> x <> h -> K s0 s ->
  K s0 (s <| ready := rq_insert_pos r p x |>).
Proof.
  intros Hq Hn Hx H. destruct (q_insert_in r p x h Hq) as [Hq2 Hin2].
  apply K_ready; auto. intros Hy. apply Hin2 in Hy. destruct Hy; auto.
Qed.

Lemma cb_callback_nt f c : cb_callback f c <> HTrigger b.
Proof. destruct c; discriminate. Qed.

Ltac tside := first [ left; reflexivity | right; constructor | right; assumption ].
Ltac cside := first [ discriminate | apply cb_callback_nt ].

Ltac case_goal_K :=
  match goal with
  | |- K _ (if ?b then _ else _) => destruct b eqn:?
  | |- K _ (match ?x with _ => _ end) =>
      lazymatch type of x with
      | prod _ _ => let a := fresh "s" in let b := fresh "r" in destruct x as [a b] eqn:?
      | _ => destruct x eqn:?
      end
  | |- K _ (fst (if ?b then _ else _)) => destruct b eqn:?
  | |- K _ (fst (match ?x with _ => _ end)) =>
      lazymatch type of x with
      | prod _ _ => let a := fresh "s" in let b := fresh "r" in destruct x as [a b] eqn:?
      | _ => destruct x eqn:?
      end
  | |- K _ (fst (_, _)) => cbn [fst]
  end.

Ltac kprim := fail.
Ltac kstep :=
  first
    [ assumption
    | apply K_call_soon; [cside|] | apply K_call_pos; [cside|]
    | apply K_setf | apply K_setl | apply K_setc | apply K_sete
    | apply K_adderr | apply K_addlog | apply K_new_future | apply K_current
    | apply K_sett; [tside|]
    | eapply K_new_future_eq; [eassumption|]
    | eapply K_call_at_K; [ | eassumption | ]; [discriminate | ]
    | kprim
    | case_goal_K ].
Ltac kgo := repeat kstep.
Ltac kop E := repeat case_in E; inversion E; subst; clear E; kgo.

Lemma K_fold {A} (f : st -> A -> st) :
  (forall s0 s a, K s0 s -> K s0 (f s a)) ->
  forall l s0 s, K s0 s -> K s0 (fold_left f l s).
Proof. intros H. induction l as [|a l IH]; intros s0 s HG; simpl; auto. Qed.

Lemma K_schedule_callbacks s0 s f : K s0 s -> K s0 (schedule_callbacks s f).
Proof.
  intros H. unfold schedule_callbacks. apply K_fold; [intros; apply K_call_soon; [apply cb_callback_nt|auto]|]. kgo.
Qed.
Lemma K_fut_finish s0 s f x s' ok : fut_finish s f x = (s', ok) -> K s0 s -> K s0 s'.
Proof.
  intros E H. unfold fut_finish in E. destruct (fstate_ (getf s f)); inversion E; subst; auto.
  apply K_schedule_callbacks. kgo.
Qed.
Lemma K_fut_finish_fst s0 s f x : K s0 s -> K s0 (fst (fut_finish s f x)).
Proof. intros H. destruct (fut_finish s f x) eqn:E. eapply K_fut_finish; eauto. Qed.
Lemma K_add_done_callback s0 s f c : K s0 s -> K s0 (add_done_callback s f c).
Proof. intros H. unfold add_done_callback. kgo. Qed.
Lemma K_remove_done_callback s0 s f c : K s0 s -> K s0 (remove_done_callback s f c).
Proof. intros H. unfold remove_done_callback. kgo. Qed.

Ltac kprim ::=
  first
    [ eapply K_fut_finish; [eassumption|]
    | apply K_fut_finish_fst | apply K_schedule_callbacks
    | apply K_add_done_callback | apply K_remove_done_callback ].

Lemma K_task_cancel s0 : forall fuel s t s' ok, task_cancel fuel s t = (s', ok) -> K s0 s -> K s0 s'.
Proof.
  induction fuel as [|fuel IH]; intros s t s' ok E H; cbn [task_cancel] in E.
  - kop E.
  - repeat case_in E; inversion E; subst; clear E; kgo;
      match goal with Hc : task_cancel fuel _ _ = _ |- _ => try (eapply IH in Hc; [|eassumption]) end; kgo.
Qed.
Lemma K_cancel_task s0 s t s' ok : cancel_task s t = (s', ok) -> K s0 s -> K s0 s'.
Proof. apply K_task_cancel. Qed.
Lemma K_cancel_awaitable s0 s f s' ok : cancel_awaitable s f = (s', ok) -> K s0 s -> K s0 s'.
Proof.
  unfold cancel_awaitable. destruct (fowner (getf s f)); [apply K_cancel_task|apply K_fut_finish].
Qed.

Ltac kprim ::=
  first
    [ eapply K_fut_finish; [eassumption|]
    | apply K_fut_finish_fst | apply K_schedule_callbacks
    | apply K_add_done_callback | apply K_remove_done_callback
    | eapply K_task_cancel; [eassumption|]
    | eapply K_cancel_task; [eassumption|]
    | eapply K_cancel_awaitable; [eassumption|] ].

(* ------------------------------------------------------------ locks *)
Lemma K_take_lock s0 s l t s' : take_lock s l t = inl s' -> K s0 s -> K s0 s'.
Proof. intros E H. unfold take_lock in E. kop E. Qed.
Lemma K_wake_up_first_p s0 s l : K s0 s -> K s0 (wake_up_first_p s l).
Proof. intros H. unfold wake_up_first_p. kgo. Qed.
Lemma K_wake_up_first_a s0 s l : K s0 s -> K s0 (wake_up_first_a s l).
Proof. intros H. unfold wake_up_first_a. kgo. Qed.
Lemma K_task_reschedule s0 s t : K s0 s -> K s0 (task_reschedule s t).
Proof.
  intros H. unfold task_reschedule. pose proof (K_inv _ _ H) as I.
  match goal with |- K _ (_ <| ready := rq_reschedule ?r ?k ?p |>) =>
    destruct (q_resched QS r k p (v_q _ I)) as [Hq P] end.
  apply K_ready; auto. intros Hy. apply (Permutation_in _ P) in Hy. apply (v_nr _ I). exact Hy.
Qed.

Lemma K_propagate_task s0 : forall fuel s t, K s0 s -> K s0 (propagate_task fuel s t).
Proof.
  induction fuel as [|fuel IH]; intros s t H; cbn [propagate_task].
  - destruct (negb _); auto.
    set (s' := if task_is_runnable s t then task_reschedule s t else s).
    assert (H' : K s0 s') by (unfold s'; destruct (task_is_runnable s t); [apply K_task_reschedule|]; auto).
    clearbody s'. clear H s. rename s' into s, H' into H.
    destruct (twaiting _); auto.
  - destruct (negb _); auto.
    set (s' := if task_is_runnable s t then task_reschedule s t else s).
    assert (H' : K s0 s') by (unfold s'; destruct (task_is_runnable s t); [apply K_task_reschedule|]; auto).
    clearbody s'. clear H s. rename s' into s, H' into H.
    destruct (twaiting (gett s t)) as [l|]; auto.
    set (s1 := match lowner (getl s l) with Some o => propagate_task fuel s o | None => s end).
    assert (H1 : K s0 s1) by (unfold s1; destruct (lowner (getl s l)); auto).
    clearbody s1. kgo.
Qed.
Lemma K_propagate_priority s0 s t : K s0 s -> K s0 (propagate_priority s t).
Proof. apply K_propagate_task. Qed.

Lemma K_fut_result s0 s f s' r : fut_result s f = (s', r) -> K s0 s -> K s0 s'.
Proof. intros E H. unfold fut_result in E. kop E. Qed.
Lemma K_await_fut s0 s f outer s' r : await_fut s f outer = (s', r) -> K s0 s -> K s0 s'.
Proof.
  intros E H. unfold await_fut in E. destruct (fdone s f).
  - destruct (fut_result s f) as [s1 r1] eqn:F. inversion E; subst. eapply K_fut_result; eauto.
  - inversion E; subst. kgo.
Qed.

Ltac kprim ::=
  first
    [ eapply K_fut_finish; [eassumption|]
    | apply K_fut_finish_fst | apply K_schedule_callbacks
    | apply K_add_done_callback | apply K_remove_done_callback
    | eapply K_task_cancel; [eassumption|]
    | eapply K_cancel_task; [eassumption|]
    | eapply K_cancel_awaitable; [eassumption|]
    | eapply K_take_lock; [eassumption|]
    | apply K_wake_up_first_p | apply K_wake_up_first_a | apply K_task_reschedule
    | apply K_propagate_priority
    | eapply K_fut_result; [eassumption|]
    | eapply K_await_fut; [eassumption|] ].

Lemma K_acquire_p_start s0 s t l s' r : acquire_p_start s t l = (s', r) -> K s0 s -> K s0 s'.
Proof. intros E H. unfold acquire_p_start in E. kop E. Qed.
Lemma K_acquire_p_finish s0 s t l f had inp s' r :
  acquire_p_finish s t l f had inp = (s', r) -> K s0 s -> K s0 s'.
Proof.
  intros E H. unfold acquire_p_finish in E.
  set (p := match inp with RVal _ => _ | RExc e => (s, RExc e) end) in E.
  assert (H1 : K s0 (fst p)).
  { unfold p. destruct inp; [|exact H]. destruct (take_lock s l t) eqn:T; [|exact H].
    eapply K_take_lock; eauto. }
  destruct p as [s1 r1]. cbn [fst] in H1. inversion E; subst. kgo.
Qed.
Lemma K_release_p s0 s t l s' r : release_p s t l = (s', r) -> K s0 s -> K s0 s'.
Proof. intros E H. unfold release_p in E. kop E. Qed.
Lemma K_acquire_a_start s0 s l s' r : acquire_a_start s l = (s', r) -> K s0 s -> K s0 s'.
Proof. intros E H. unfold acquire_a_start in E. kop E. Qed.
Lemma K_acquire_a_finish s0 s l f inp s' r : acquire_a_finish s l f inp = (s', r) -> K s0 s -> K s0 s'.
Proof. intros E H. unfold acquire_a_finish in E. kop E. Qed.
Lemma K_release_a s0 s l s' r : release_a s l = (s', r) -> K s0 s -> K s0 s'.
Proof. intros E H. unfold release_a in E. kop E. Qed.
Lemma K_acquire_start s0 s t l s' r : acquire_start s t l = (s', r) -> K s0 s -> K s0 s'.
Proof.
  unfold acquire_start. destruct (lkind_ (getl s l)); [apply K_acquire_p_start|apply K_acquire_a_start].
Qed.
Lemma K_release s0 s t l s' r : release s t l = (s', r) -> K s0 s -> K s0 s'.
Proof. unfold release. destruct (lkind_ (getl s l)); [apply K_release_p|apply K_release_a]. Qed.

(* ------------------------------------------------------------ throw / reinsert *)
Lemma K_throw_go s0 s t e :
  K s0 s -> K s0 (call_soon_ (sett s t (gett s t <| twaiter := None |>)) (HStep t (Some e))).
Proof. intros H. kgo. Qed.

Lemma K_task_throw s0 s t e s' r : task_throw s t e = (s', r) -> K s0 s -> K s0 s'.
Proof.
  intros E H. unfold task_throw in E.
  repeat case_in E; inversion E; subst; clear E; auto;
    try (apply K_throw_go; kgo; fail);
    match goal with Hf : rq_find _ _ true = Some _ |- _ =>
      destruct (K_find _ _ _ _ _ Hf H) as [H1 _]; apply (K_throw_go _ _ t e H1) end.
Qed.
Lemma K_task_reinsert s0 s t p s' r : task_reinsert s t p = (s', r) -> K s0 s -> K s0 s'.
Proof.
  intros E H. unfold task_reinsert in E. destruct (rq_find _ _ true) as [[x r0]|] eqn:F.
  - inversion E; subst; clear E. destruct (K_find _ _ _ _ _ F H) as [H1 Hx].
    pose proof (K_inv _ _ H1) as I1.
    change (K s0 ((s <| ready := r0 |>) <| ready := rq_insert_pos r0 p x |>)).
    apply K_reinsert; auto; [apply (v_q _ I1)|apply (v_nr _ I1)].
  - inversion E; subst; auto.
Qed.
Lemma K_task_interrupt_start s0 s t e s' r : task_interrupt_start s t e = (s', r) -> K s0 s -> K s0 s'.
Proof.
  intros E H. unfold task_interrupt_start in E.
  destruct (task_throw s t e) as [s1 r1] eqn:T. pose proof (K_task_throw _ _ _ _ _ _ T H) as H1.
  destruct r1; [|inversion E; subst; auto].
  destruct (task_reinsert s1 t 0) as [s2 r2] eqn:R. pose proof (K_task_reinsert _ _ _ _ _ _ R H1) as H2.
  destruct r2; inversion E; subst; auto.
Qed.
Lemma K_interruptor s0 : forall fuel s b' i s' r, interruptor fuel s b' i = (s', r) -> K s0 s -> K s0 s'.
Proof.
  induction fuel as [|fuel IH]; intros s b' i s' r E H; cbn [interruptor] in E.
  - inversion E; subst; auto.
  - destruct (Nat.leb 3 i); [inversion E; subst; auto|].
    destruct (negb _); [eapply IH; eauto|].
    destruct (task_interrupt_start s _ _) as [s1 r1] eqn:T.
    pose proof (K_task_interrupt_start _ _ _ _ _ _ T H) as H1.
    repeat case_in E; inversion E; subst; auto; eapply IH; eauto.
Qed.
Lemma K_interruptor_wrap s0 s r s' r' : interruptor_wrap s r = (s', r') -> K s0 s -> K s0 s'.
Proof. intros E H. pose proof (interruptor_wrap_fst s r) as F. rewrite E in F. simpl in F. subst. exact H. Qed.

(* ------------------------------------------------------------ conditions *)
Lemma K_notify_p s0 s c n : K s0 s -> K s0 (notify_p s c n).
Proof.
  intros H. unfold notify_p.
  match goal with |- context [fold_left ?F ?l ?a] =>
    assert (HF : K s0 (fst (fst (fold_left F l a)))) end.
  { match goal with |- context [fold_left ?F ?l ?a] => generalize l; intros l0 end.
    assert (X : forall l (a : st * nat * nat), K s0 (fst (fst a)) ->
      K s0 (fst (fst (fold_left (fun '(s1, taken, cnt) (f : nat) =>
               if n <=? cnt then (s1, taken, cnt)
               else if fdone s1 f then (s1, S taken, cnt)
                    else (fst (fut_finish s1 f (FResult 1)), S taken, S cnt)) l a)))).
    { induction l as [|f l IH]; intros [[s1 tk] cnt] Ha; simpl; auto. apply IH.
      destruct (n <=? cnt); auto. destruct (fdone s1 f); auto. simpl. kgo. }
    apply X. exact H. }
  destruct (fold_left _ _ _) as [[s1 tk] cnt]. cbn [fst] in HF. kgo.
Qed.
Lemma K_notify_i s0 s c n : K s0 s -> K s0 (notify_i s c n).
Proof.
  intros H. unfold notify_i.
  assert (X : forall l (a : st * nat), K s0 (fst a) ->
    K s0 (fst (fold_left (fun '(s1, cnt) (f : nat) =>
             if n <=? cnt then (s1, cnt)
             else if fdone s1 f then (s1, cnt)
                  else (fst (fut_finish s1 f (FResult 0)), S cnt)) l a))).
  { induction l as [|f l IH]; intros [s1 cnt] Ha; simpl; auto. apply IH.
    destruct (n <=? cnt); auto. destruct (fdone s1 f); auto. simpl. kgo. }
  apply X. exact H.
Qed.
Lemma K_reacquire s0 s t c pc err body s' r :
  reacquire s t c pc err body = (s', r) -> K s0 s -> K s0 s'.
Proof.
  intros E H. unfold reacquire in E.
  destruct (acquire_start s t _) as [s1 r1] eqn:A. pose proof (K_acquire_start _ _ _ _ _ _ A H).
  repeat case_in E; inversion E; subst; auto.
Qed.
Lemma K_cond_p_after s0 s c r s' r' : cond_p_after s c r = (s', r') -> K s0 s -> K s0 s'.
Proof. intros E H. unfold cond_p_after in E. destruct r; inversion E; subst; auto. apply K_notify_p; auto. Qed.
Lemma K_queue_iterated s0 s : K s0 s -> K s0 (queue_iterated s).
Proof.
  intros H. unfold queue_iterated. destruct (ready s) as [l|p] eqn:R; auto.
  pose proof (K_inv _ _ H) as I. pose proof (v_q _ I) as Hq. rewrite R in Hq.
  destruct (q_iter QS p Hq) as [Hq' P].
  apply K_ready; auto. intros Hy. apply (Permutation_in _ P) in Hy. apply (v_nr _ I). rewrite R. exact Hy.
Qed.

Ltac kprim ::=
  first
    [ eapply K_fut_finish; [eassumption|]
    | apply K_fut_finish_fst | apply K_schedule_callbacks
    | apply K_add_done_callback | apply K_remove_done_callback
    | eapply K_task_cancel; [eassumption|]
    | eapply K_cancel_task; [eassumption|]
    | eapply K_cancel_awaitable; [eassumption|]
    | eapply K_take_lock; [eassumption|]
    | apply K_wake_up_first_p | apply K_wake_up_first_a | apply K_task_reschedule
    | apply K_propagate_priority
    | eapply K_fut_result; [eassumption|]
    | eapply K_await_fut; [eassumption|]
    | eapply K_acquire_start; [eassumption|]
    | eapply K_release; [eassumption|]
    | eapply K_acquire_p_finish; [eassumption|]
    | eapply K_acquire_a_finish; [eassumption|]
    | eapply K_task_throw; [eassumption|]
    | eapply K_task_reinsert; [eassumption|]
    | eapply K_task_interrupt_start; [eassumption|]
    | eapply K_interruptor; [eassumption|]
    | eapply K_interruptor_wrap; [eassumption|]
    | apply K_notify_p | apply K_notify_i | apply K_queue_iterated
    | eapply K_reacquire; [eassumption|]
    | eapply K_cond_p_after; [eassumption|] ].


(* ------------------------------------------------------------ which frames library code creates *)
Lemma tis_frames s t e s' y frs : task_interrupt_start s t e = (s', LSusp y frs) -> nosleep frs.
Proof.
  unfold task_interrupt_start. intros E. repeat case_in E; inversion E; subst.
  repeat constructor; discriminate.
Qed.
Lemma interruptor_frames : forall fuel s b' i s' y frs,
  interruptor fuel s b' i = (s', LSusp y frs) -> nosleep frs.
Proof.
  induction fuel as [|fuel IH]; intros s b' i s' y frs E; cbn [interruptor] in E; [discriminate|].
  destruct (Nat.leb 3 i); [discriminate|].
  destruct (negb _); [eapply IH; eauto|].
  destruct (task_interrupt_start s _ _) as [s1 r1] eqn:T.
  destruct r1 as [[v|e]|y1 frs1].
  - eapply IH; eauto.
  - destruct e; try discriminate. destruct (Nat.eqb i 2); inversion E; subst.
    repeat constructor; discriminate.
  - inversion E; subst. apply nosleep_app; [eapply tis_frames; eauto|repeat constructor; discriminate].
Qed.
Lemma await_fut_frames s f s' y frs : await_fut s f [] = (s', LSusp y frs) -> nosleep frs.
Proof.
  unfold await_fut. intros E. repeat case_in E; inversion E; subst. repeat constructor; discriminate.
Qed.

Lemma lib_call_frames t op s s' y frs :
  lib_call t op s = (s', LSusp y frs) ->
  nosleep frs \/
  (exists f, frs = [InFut f; InSleepTimer (length (handles s))] /\
             length (handles s') = S (length (handles s))).
Proof.
  intros E. destruct op; cbn [lib_call] in E;
    try (left; repeat case_in E; inversion E; subst; repeat constructor; discriminate).
  - (* OSleep *) right. unfold new_future, call_at in E. inversion E; subst. eexists. split; [reflexivity|].
    cbn. rewrite app_length. simpl. lia.
  - left. eapply await_fut_frames; eauto.
  - left. eapply await_fut_frames; eauto.
  - left. eapply acquire_start_frames; eauto.
  - left. eapply tis_frames; eauto.
  - (* OInterruptor *) left. destruct (interruptor 4 s b0 0) as [s1 r1] eqn:N.
    destruct (interruptor_wrap_eq _ _ _ _ E) as [-> Hr]. specialize (Hr _ _ eq_refl). subst.
    eapply interruptor_frames; eauto.
Qed.

Lemma frame_resume_frames t fr inp s s' y frs :
  frame_resume t fr inp s = (s', LSusp y frs) -> nosleep frs.
Proof.
  intros E. destruct fr; cbn [frame_resume] in E;
    try (repeat case_in E; inversion E; subst; repeat constructor; discriminate).
  - (* InCondWaitP *)
    match type of E with context [reacquire ?a ?b0 ?c ?d ?e ?f] =>
      destruct (reacquire a b0 c d e f) as [s2 r2] eqn:R end.
    pose proof (reacquire_frames _ _ _ _ _ _ _ _ R) as Hf.
    destruct r2 as [rep|y2 frs2]; [repeat case_in E; inversion E|].
    inversion E; subst. eapply Hf; eauto.
  - (* InReleasedP *)
    destruct inp as [v|e]; [repeat case_in E; inversion E|].
    destruct (is_cancel e); [|repeat case_in E; inversion E].
    destruct (reacquire s t c true (Some e) body) as [s2 r2] eqn:R.
    pose proof (reacquire_frames _ _ _ _ _ _ _ _ R) as Hf.
    destruct r2 as [rep|y2 frs2]; [repeat case_in E; inversion E|].
    inversion E; subst. eapply Hf; eauto.
  - (* InCondWaitI *) eapply reacquire_frames; eauto.
  - (* InReacquireI *)
    destruct inp as [v|e]; [discriminate|]. destruct (is_cancel e); [|discriminate].
    eapply reacquire_frames; eauto.
  - (* InIntr *)
    destruct inp as [v|e].
    + destruct (interruptor 4 s b0 (S i)) as [s1 r1] eqn:N.
      destruct (interruptor_wrap_eq _ _ _ _ E) as [-> Hr]. specialize (Hr _ _ eq_refl). subst.
      eapply interruptor_frames; eauto.
    + destruct (_ && _).
      * destruct (interruptor_wrap_eq _ _ _ _ E) as [-> Hr]. specialize (Hr _ _ eq_refl).
        inversion Hr. repeat constructor; discriminate.
      * destruct (interruptor_wrap_eq _ _ _ _ E) as [-> Hr]. specialize (Hr _ _ eq_refl). discriminate.
Qed.

(* ------------------------------------------------------------ library calls, frames, user code *)
Lemma K_event_set_fold s0 : forall ws s,
  K s0 s -> K s0 (fold_left (fun s f => if fdone s f then s else fst (fut_finish s f (FResult 1))) ws s).
Proof. intros ws. apply K_fold. intros. kgo. Qed.

Lemma K_lib_call s0 t op s s' r : lib_call t op s = (s', r) -> K s0 s -> K s0 s'.
Proof.
  intros E H. destruct op; cbn [lib_call] in E;
    try (kop E; fail).
  - (* OEventSet *) repeat case_in E; inversion E; subst; auto. apply K_event_set_fold. kgo.
  - (* OTimeoutEnter *)
    destruct d as [d|]; [|inversion E; subst; auto].
    destruct (call_at s (now s + d)%Q (HTrigger (length (blocks s)))) as [s1 h1] eqn:A.
    inversion E; subst; clear E.
    pose proof (v_b _ (K_inv _ _ H)) as Hb.
    assert (Hc : HTrigger (length (blocks s)) <> HTrigger b) by (intros Q0; inversion Q0; lia).
    destruct (K_call_at_eq _ _ _ _ _ _ Hc A H) as (H1 & Eh & El).
    pose proof (v_h _ (K_inv _ _ H)).
    apply K_enter; auto; lia.
  - (* OTimeoutExit *) inversion E; subst. apply K_exit, H.
Qed.

Lemma lres_frs_ok t op s s' y frs :
  lib_call t op s = (s', LSusp y frs) -> h < length (handles s) -> frs_ok (length (handles s')) frs.
Proof.
  intros E Hh. destruct (lib_call_frames _ _ _ _ _ _ E) as [Hn|(f & -> & El)].
  - apply nosleep_frs_ok; auto.
  - rewrite El. repeat constructor; simpl; lia.
Qed.

Lemma K_frame_resume s0 t fr inp s s' r :
  frame_resume t fr inp s = (s', r) -> fr_ok (length (handles s)) fr -> K s0 s -> K s0 s'.
Proof.
  intros E Hf H. destruct fr; cbn [frame_resume] in E; try (kop E; fail);
    try (unfold interruptor_wrap in E; kop E; fail).
  inversion E; subst. apply K_cancel_handle; auto. apply Hf.
Qed.

Lemma K_resume_stack t : forall frs s0 inp s s' r,
  resume_stack t frs inp s = (s', r) -> frs_ok (length (handles s)) frs -> K s0 s ->
  K s0 s' /\ (forall y frs', r = LSusp y frs' -> frs_ok (length (handles s')) frs').
Proof.
  induction frs as [|fr rest IH]; intros s0 inp s s' r E Hf H; cbn [resume_stack] in E.
  - inversion E; subst; split; auto. discriminate.
  - inversion Hf as [|? ? Hfr Hrest]; subst.
    destruct (frame_resume t fr inp s) as [s1 r1] eqn:F.
    pose proof (K_frame_resume s _ _ _ _ _ _ F Hfr (K_refl _ (K_inv _ _ H))) as H1.
    assert (Hrest1 : frs_ok (length (handles s1)) rest).
    { eapply frs_ok_mono; [|exact Hrest]. apply H1. }
    pose proof (K_trans _ _ _ H H1) as H01.
    destruct r1 as [rep|y1 frs1].
    + eapply IH; eauto.
    + inversion E; subst. split; auto. intros y frs' Hq. inversion Hq; subst.
      apply Forall_app. split; [|exact Hrest1].
      apply nosleep_frs_ok. eapply frame_resume_frames; eauto.
Qed.

Lemma K_new_task s0 s kind p c s' t : new_task s kind p c = (s', t) -> K s0 s -> K s0 s'.
Proof.
  intros E H. unfold new_task in E.
  destruct (new_future s (Some (length (tasks s)))) as [s1 f] eqn:N.
  pose proof (K_new_future_eq _ _ _ _ _ N H) as H1. inversion E; subst. apply K_call_soon; [discriminate|].
  apply K_tasks_app; auto. constructor.
Qed.
Lemma K_spawn_task s0 s how c s' t : spawn_task s how c = (s', t) -> K s0 s -> K s0 s'.
Proof. unfold spawn_task. destruct how; apply K_new_task. Qed.

Definition out_ok (s : st) (o : outcome) : Prop :=
  match o with OYield _ frs _ => frs_ok (length (handles s)) frs | ODone _ => True end.

Lemma K_exec t : forall c s0 s s' o, exec t c s = (s', o) -> K s0 s -> K s0 s' /\ out_ok s' o.
Proof.
  induction c as [v|e|op k IH|how child IHc k IHk]; intros s0 s s' o E H.
  - inversion E; subst; split; auto; exact I.
  - inversion E; subst; split; auto; exact I.
  - cbn [exec] in E. destruct (lib_call t op s) as [s1 r1] eqn:L.
    pose proof (K_lib_call _ _ _ _ _ _ L H) as H1.
    destruct r1; [eapply IH; eauto|inversion E; subst; split; auto].
    simpl. eapply lres_frs_ok; eauto. apply (v_h _ (K_inv _ _ H)).
  - destruct how; cbn [exec] in E;
      try (destruct (spawn_task s _ child) as [s1 t'] eqn:S;
           pose proof (K_spawn_task _ _ _ _ _ _ S H) as H1).
    + eapply IHk; eauto.
    + eapply IHk; eauto.
    + eapply IHk; eauto.
    + destruct (lib_call t _ s1) as [s2 r2] eqn:L. pose proof (K_lib_call _ _ _ _ _ _ L H1) as H2.
      destruct r2 as [[v|e]|]; [eapply IHk; eauto|eapply IHk; eauto|inversion E; subst; split; auto].
      simpl. eapply lres_frs_ok; eauto. apply (v_h _ (K_inv _ _ H1)).
    + inversion E; subst; split; auto. repeat constructor.
    + destruct (exec t child s) as [s1 o1] eqn:C. destruct (IHc _ _ _ _ C H) as [H1 Ho1].
      destruct o1 as [r1|y frs kc].
      * eapply IHk; [exact E|]. kgo.
      * eapply IHk; [exact E|]. apply K_call_soon; [discriminate|].
        match goal with |- K s0 (?u <| futs := ?a |> <| tasks := ?b0 |>) =>
          assert (HU : K s0 u /\ handles u = handles s1) end.
        { destruct y; split; kgo; reflexivity. }
        destruct HU as [HU EU].
        match goal with |- K s0 (?u <| futs := ?a |> <| tasks := tasks _ ++ [?x] |>) =>
          change (K s0 ((u <| futs := a |>) <| tasks := tasks (u <| futs := a |>) ++ [x] |>)) end.
        apply K_tasks_app; [|apply K_futs; exact HU].
        cbn. rewrite EU. exact Ho1.
Qed.

(* ------------------------------------------------------------ Task.__step and the loop *)
Lemma K_finish_step s0 t s o : out_ok s o -> K s0 s -> K s0 (finish_step t s o).
Proof. intros Ho H. unfold finish_step. destruct o as [[v|e]|[|f] frs k]; simpl in Ho; kgo. Qed.

Lemma K_step_task s0 t exc s : K s0 s -> K s0 (step_task t exc s).
Proof.
  intros H. unfold step_task. destruct (tdone s t); [apply K_adderr; auto|].
  pose proof (v_frm _ (K_inv _ _ H) t) as Hfr.
  match goal with |- context [sett s t ?x <| current := Some t |>] =>
    set (s1 := sett s t x <| current := Some t |>) end.
  assert (H1 : K s0 s1) by (unfold s1; kgo).
  assert (El : length (handles s1) = length (handles s)) by reflexivity.
  match goal with |- K s0 (let '(s2, o) := ?p in _) =>
    assert (HP : K s0 (fst p) /\ out_ok (fst p) (snd p)); [|destruct p as [sx ox]] end.
  { destruct (tcont_ (gett s t)) as [c|frs k|y frs k| |]; unfold tc_ok in Hfr; cbn [frames_of] in Hfr.
    - destruct (if tmustc (gett s t) then _ else exc); [split; [exact H1|exact I]|].
      destruct (exec t c s1) as [s2 o] eqn:E. cbn [fst snd]. eapply K_exec; eauto.
    - destruct (resume_stack t frs _ s1) as [s2 r] eqn:E.
      destruct (K_resume_stack t _ s0 _ _ _ _ E Hfr H1) as [H2 Hf2].
      destruct r; [|cbn [fst snd]; split; [exact H2|eapply Hf2; eauto]].
      destruct (exec t (k r) s2) as [s3 o] eqn:E3. cbn [fst snd]. eapply K_exec; eauto.
    - destruct (if tmustc (gett s t) then _ else exc).
      + destruct (resume_stack t frs _ s1) as [s2 r] eqn:E.
        destruct (K_resume_stack t _ s0 _ _ _ _ E Hfr H1) as [H2 Hf2].
        destruct r; [|cbn [fst snd]; split; [exact H2|eapply Hf2; eauto]].
        destruct (exec t (k r) s2) as [s3 o] eqn:E3. cbn [fst snd]. eapply K_exec; eauto.
      + cbn [fst snd]. destruct y; (split; [kgo|exact Hfr]).
    - split; [exact H1|exact I].
    - split; [exact H1|exact I]. }
  cbn [fst snd] in HP. destruct HP as [HP Ho]. cbv zeta. apply K_current. apply K_finish_step; auto.
Qed.

Lemma K_wakeup s0 t f s : K s0 s -> K s0 (wakeup t f s).
Proof.
  intros H. unfold wakeup. destruct (fstate_ (getf s f)); try (apply K_step_task; exact H).
  destruct (fut_result s f) as [s1 r] eqn:E. apply K_step_task. eapply K_fut_result; eauto.
Qed.

Lemma K_run_callback s0 c s : K s0 s -> K s0 (run_callback c s).
Proof.
  intros H. destruct c as [t e|t f|t p|n|f v|b'| |t]; cbn [run_callback];
    try (apply K_step_task; exact H); try (apply K_wakeup; exact H); try (kgo; fail).
  - destruct (new_task s KC None (interruptor_body b')) as [s1 t1] eqn:E. cbn [fst].
    eapply K_new_task; eauto.
  - destruct (cancel_task s t) as [s1 ok] eqn:E. cbn [fst]. eapply K_cancel_task; eauto.
Qed.

Lemma K_run_one s0 s : K s0 s -> K s0 (run_one s).
Proof.
  intros H. unfold run_one. destruct (rq_popleft (ready s)) as [[x r]|] eqn:P; [|exact H].
  pose proof (K_inv _ _ H) as I.
  destruct (q_pop_in _ _ _ h (v_q _ I) P) as (Hq & Hx & Hin).
  assert (H1 : K s0 (s <| ready := r |>)).
  { apply K_ready; auto. intros Hy. apply (v_nr _ I). auto. }
  destruct (hcancelled _); [exact H1|]. apply K_run_callback. exact H1.
Qed.

(* what the loop pops is never the trigger handle of b, and no other handle carries HTrigger b *)
Lemma popped_not_trigger s x r : Inv s -> rq_popleft (ready s) = Some (x, r) -> x <> h.
Proof.
  intros I P. destruct (q_pop_in _ _ _ h (v_q _ I) P) as (Hq & Hx & Hin).
  intros ->. apply (v_nr _ I). exact Hx.
Qed.

Lemma popped_not_trigger_cb s x r :
  Inv s -> rq_popleft (ready s) = Some (x, r) -> hcb (geth s x) <> HTrigger b.
Proof.
  intros I P Hcb. apply (popped_not_trigger s x r I P). apply (v_uq _ I); auto.
  destruct (Nat.lt_ge_cases x (length (handles s))) as [Hl|Hl]; auto.
  unfold geth in Hcb. rewrite nth_overflow in Hcb by exact Hl. discriminate.
Qed.

(* ------------------------------------------------------------ the start of a loop iteration *)
Lemma K_timers_pop s0 s e tm :
  HeapqModel.heappop timer_lt tdflt (timers s) = Some (e, tm) ->
  (snd e = h -> bactive (getb s b) = false) -> K s0 s -> K s0 (s <| timers := tm |>).
Proof.
  intros E Hc (I & L & N). split; [|auto]. pose proof (tperm_pop _ _ _ E) as P.
  destruct (theap_pop _ _ _ (v_hp _ I) E) as [_ Hh].
  destruct I. constructor; cbn; auto.
  - intros x Hx. apply v_tl0. apply (Permutation_in _ (Permutation_sym P)). right; auto.
  - pose proof (Permutation_NoDup (Permutation_map snd P) v_nd0) as ND. inversion ND; auto.
  - intros Ha. change (bactive (getb s b) = true) in Ha.
    specialize (v_in0 Ha). apply (Permutation_in _ P) in v_in0.
    destruct v_in0 as [Ee|]; auto. subst e. simpl in Hc. rewrite Hc in Ha by reflexivity. discriminate.
  - intros w' Hi. apply v_w0. apply (Permutation_in _ (Permutation_sym P)). right; auto.
Qed.

Lemma K_drop_cancelled s0 : forall fuel s, K s0 s -> K s0 (drop_cancelled fuel s).
Proof.
  induction fuel as [|fuel IH]; intros s H; cbn [drop_cancelled]; auto.
  destruct (timers s) as [|[w0 h0] tl] eqn:T; auto.
  destruct (hcancelled (geth s h0)) eqn:C; auto. rewrite <- T.
  destruct (HeapqModel.heappop _ _ _) as [[e tm]|] eqn:P; auto.
  apply IH. eapply K_timers_pop; eauto.
  pose proof (K_inv _ _ H) as I. destruct (theap_pop _ _ _ (v_hp _ I) P) as [Hd _].
  rewrite T in Hd. inversion Hd; subst e. simpl. intros ->.
  rewrite (v_c _ I) in C. destruct (bactive (getb s b)); auto; discriminate.
Qed.

Lemma K_move_due s0 : forall fuel s, (now s < w)%Q -> K s0 s -> K s0 (move_due fuel s).
Proof.
  induction fuel as [|fuel IH]; intros s Hn H; cbn [move_due]; auto.
  destruct (timers s) as [|[w0 h0] tl] eqn:T; auto.
  destruct (Qle_bool w0 (now s)) eqn:C; auto. rewrite <- T.
  destruct (HeapqModel.heappop _ _ _) as [[[w1 h1] tm]|] eqn:P; auto.
  pose proof (K_inv _ _ H) as I. destruct (theap_pop _ _ _ (v_hp _ I) P) as [Hd _].
  rewrite T in Hd. inversion Hd; subst w1 h1. clear Hd.
  assert (Hne : h0 <> h).
  { intros ->. assert (Hi : In (w0, h) (timers s)) by (rewrite T; left; auto).
    apply (v_w _ I) in Hi. subst w0. apply Qle_bool_iff in C.
    eapply Qlt_irrefl. eapply Qle_lt_trans; eauto. }
  assert (H1 : K s0 (s <| timers := tm |>)).
  { eapply K_timers_pop; eauto. simpl. intros; congruence. }
  apply IH; [exact Hn|]. pose proof (K_inv _ _ H1) as I1.
  apply K_ready; [apply (q_append QS); apply (v_q _ I1)| |exact H1].
  intros Hy. apply q_app_in in Hy; [|apply (v_q _ I1)]. destruct Hy as [Hy|Hy]; [congruence|].
  apply (v_nr _ I1). exact Hy.
Qed.

Lemma K_begin_iteration s0 s : (now s < w)%Q -> K s0 s -> K s0 (begin_iteration s).
Proof.
  intros Hn H. unfold begin_iteration. apply K_move_due.
  - pose proof (K_drop_cancelled s (length (timers s)) s (K_refl _ (K_inv _ _ H))) as (_ & _ & E).
    rewrite E. exact Hn.
  - apply K_drop_cancelled. exact H.
Qed.

(* the clock is before the deadline at every loop-iteration start of the action list *)
Fixpoint early (n : Q) (acts : list action) : Prop :=
  match acts with
  | [] => True
  | ABegin :: r => (n < w)%Q /\ early n r
  | AAdvance d :: r => early (n + d)%Q r
  | _ :: r => early n r
  end.

Lemma Inv_advance s d : Inv s -> Inv (s <| now := (now s + d)%Q |>).
Proof. intros I. destruct I. constructor; auto. Qed.

Theorem armed_actions : forall acts s,
  Inv s -> early (now s) acts -> Inv (fold_left do_action acts s).
Proof.
  induction acts as [|a acts IH]; intros s I He; simpl; auto.
  pose proof (K_refl _ I) as H.
  destruct a as [| |d|how c|op]; cbn [early] in He; cbn [do_action]; apply IH.
  - apply (K_inv s). apply K_run_one; auto.
  - pose proof (K_run_one _ _ H) as (_ & _ & E). rewrite E. exact He.
  - apply (K_inv s). apply K_begin_iteration; [apply He|auto].
  - pose proof (K_begin_iteration _ _ (proj1 He) H) as (_ & _ & E). rewrite E. apply He.
  - apply Inv_advance; auto.
  - exact He.
  - destruct (spawn_task s how c) as [s1 t] eqn:E. cbn [fst]. apply (K_inv s). eapply K_spawn_task; eauto.
  - destruct (spawn_task s how c) as [s1 t] eqn:E. cbn [fst].
    pose proof (K_spawn_task _ _ _ _ _ _ E H) as (_ & _ & En). rewrite En. exact He.
  - destruct (lib_call 0 op s) as [s1 r] eqn:E. cbn [fst]. apply (K_inv s). eapply K_lib_call; eauto.
  - destruct (lib_call 0 op s) as [s1 r] eqn:E. cbn [fst].
    pose proof (K_lib_call _ _ _ _ _ _ E H) as (_ & _ & En). rewrite En. exact He.
Qed.

End Timer.
