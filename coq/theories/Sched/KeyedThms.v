(* C12: [keyed] in every state of a run of the fixed-order domain, and C12_no_overtake with the
   hypothesis [keyed] discharged. *)
From Coq Require Import QArith Lqa Sorting.Permutation.
From RecordUpdate Require Import RecordUpdate.
From Asynkit Require Import Base.Prelude Queue.PQ Queue.Order Queue.PosPQ Queue.Exec
  Sched.Model Sched.Corr Sched.Tables Sched.QFacts Sched.LockInv Sched.Footprint Sched.LockOps Sched.LockLib
  Sched.LockProofs Sched.LockThms Sched.InheritEprio Sched.InheritHandover Sched.InheritKeys
  Sched.InheritFalls Sched.WaitInv Sched.WaitOps Sched.WaitLib Sched.WaitProofs
  Sched.NoOvertakeRel Sched.NoOvertakeThms.
From Asynkit Require Import Sched.OrderInv Sched.OrderPass Sched.OrderThms Sched.OrderExample
  Sched.InheritChain Sched.KeyedInv Sched.KeyedLib Sched.KeyedPass.
Import RecordSetNotations.
Open Scope nat_scope.

Lemma run_ord_firstn : forall k acts s0, run_ord s0 acts -> run_ord s0 (firstn k acts).
Proof.
  induction k as [|k IH]; intros [|a0 rest] s0 H; simpl; auto. destruct H as [A B]. split; auto.
Qed.

Lemma run_np_firstn : forall k acts s0, run_np s0 acts -> run_np s0 (firstn k acts).
Proof.
  induction k as [|k IH]; intros [|a0 rest] s0 H; simpl; auto. destruct H as [A B]. split; auto.
Qed.

Section Run.
  Variables (prio_loop : bool) (factor : Q) (draws : list Q) (lks : list lkind)
            (cds : list (ckind * nat)) (nev : nat) (acts : list action).
  Let s0 := init_st prio_loop factor draws lks cds nev.
  Let T := tr s0 acts.
  Hypothesis Hok : run_ok s0 acts.
  Hypothesis Hne : run_ne s0 acts.
  Hypothesis Hord : run_ord s0 acts.
  Hypothesis Hnp : run_np s0 acts.

  Lemma T_reach_kd k : reachable_kd (T k).
  Proof.
    destruct (tr_run k acts s0 Hok Hne) as [A B].
    exists prio_loop, factor, draws, lks, cds, nev, (firstn k acts).
    split; [exact A|]. split; [exact B|]. split; [now apply run_ord_firstn|]. split; [now apply run_np_firstn|].
    reflexivity.
  Qed.

  (* every state of the run: every live entry of every PriorityLock is keyed by the current
     effective priority of its task *)
  Theorem keyed_run k l : keyed (T k) l.
  Proof. apply keyed_reachable, T_reach_kd. Qed.

  (* the history theorem without the hypothesis [keyed] *)
  Theorem no_overtake_reachable l fa qa_ fb i j :
    j < length acts ->
    waits_through T l fa qa_ i (S j) ->
    (forall k, i <= k <= j -> holder_free (T k) l) ->
    (forall k, i <= k <= j -> In fb (objs (T k) l) ->
               (waiter_prio (T k) l fa < waiter_prio (T k) l fb)%Q) ->
    forall k, i <= k <= j -> ~ granted_at T l fb k.
  Proof.
    intros Hj Wa HF Hlt.
    apply (no_overtake prio_loop factor draws lks cds nev acts Hok Hne l fa qa_ fb i j Hj Wa HF); auto.
    intros k _. apply keyed_run.
  Qed.
End Run.

(* ------------------------------------------------------------ non-vacuity: the F17 run *)
Example krun_np : run_np kst0 kacts.
Proof. vm_compute. repeat split. Qed.

Example kst12_reachable_kd : reachable_kd kst12.
Proof.
  change kst12 with (tr kst0 kacts 12).
  apply (T_reach_kd false 0%Q [] [LPrio; LPrio; LPrio] [] 0 kacts krun_ok krun_ne krun_ord krun_np 12).
Qed.

Example kst12_keyed_all : forall l, keyed kst12 l.
Proof. apply keyed_reachable, kst12_reachable_kd. Qed.

(* with an environment action (ADo): the run kactsX of OrderExample.v, X.cancel() from outside *)
Example kXrun_np : run_np kst0 kactsX.
Proof. vm_compute. repeat split. Qed.
