(* C08, the liveness half of "every scheduled callback and task step runs exactly once", on the
   list ready queue of Sched/Model.v (stock / scheduling loops), for a running loop (AStep-only
   continuations).
   1. the position measure [ahead s h] and what ONE AStep does to it (exact balance;
      the no-positional-operation case; the queue primitives call_soon / call_pos /
      task_reinsert / find-and-remove / cancel_handle);
   2. [runs_eventually]: h is at the head - and is popped and run by the next AStep - after at
      most [ahead s h + K] steps when at most K entries are pushed in front of it and no step
      takes it out of the queue; exactly after [ahead s h] steps when no positional operation is
      executed (from LockProgress.handle_runs_within). *)
From Coq Require Import QArith.
From RecordUpdate Require Import RecordUpdate.
From Asynkit Require Import Base.Prelude Sched.Model Sched.LockLive Sched.LockProgress
  Sched.QueuePosition.
Import RecordSetNotations.
Open Scope nat_scope.

Definition items (s : st) : list nat := rq_items (ready s).
(* the number of handles strictly before h in the ready queue *)
Definition ahead (s : st) (h : nat) : nat := ahead_l (items s) h.
Definition queued (s : st) (h : nat) : Prop := In h (items s).

(* ================================================================ 1. one AStep *)
(* the step pops the head and, unless the handle is cancelled, runs its callback *)
Theorem head_step s h rest :
  ready s = RList (h :: rest) ->
  do_action s AStep =
    (let s1 := s <| ready := RList rest |> in
     if hcancelled (geth s h) then s1 else run_callback (hcb (geth s h)) s1).
Proof.
  intros E. cbn [do_action]. unfold run_one. rewrite E. reflexivity.
Qed.

(* a queued handle with nothing ahead of it is the head *)
Lemma ahead0_head s q h : ready s = RList q -> queued s h -> ahead s h = 0 -> exists rest, q = h :: rest.
Proof.
  unfold queued, ahead, items. intros E. rewrite E. cbn [rq_items]. apply ahead_zero.
Qed.

Lemma ahead_pos_head s x r h : ready s = RList (x :: r) -> 0 < ahead s h -> x <> h.
Proof.
  unfold ahead, items. intros E. rewrite E. cbn [rq_items]. intros A B. subst. rewrite ahead_head in A. lia.
Qed.

(* the exact balance of ANY AStep on a duplicate-free list queue, h not at the head:
   one less (the popped head), minus the entries in front of h that left that region
   (removed, or moved behind h), plus the entries that appeared in front of h (inserted
   positionally, or moved there).  When h is no longer queued afterwards, [ahead] is the
   length of the new queue. *)
Theorem step_balance s x r h :
  ready s = RList (x :: r) -> x <> h ->
  let s' := do_action s AStep in
  NoDup r -> NoDup (items s') ->
  ahead s' h + gonefront r (items s') h + 1 = ahead s h + newfront r (items s') h.
Proof.
  intros E Hx s' N N'.
  assert (A : ahead s h = S (ahead_l r h)).
  { unfold ahead, items. rewrite E. cbn [rq_items]. now apply ahead_cons. }
  rewrite A. pose proof (ahead_balance r (items s') h N N') as B.
  unfold ahead. lia.
Qed.

(* a step that executes no positional scheduling (run_one_np): h stays queued and moves forward
   by exactly one *)
Theorem step_np_ahead s q h :
  ready s = RList q -> queued s h -> 0 < ahead s h -> run_one_np s ->
  queued (do_action s AStep) h /\ ahead (do_action s AStep) h + 1 = ahead s h.
Proof.
  intros E Hq Ha Hnp. destruct (run_one_fifo s q E Hnp) as [app Ea]. cbn [do_action].
  unfold queued, ahead, items in *. rewrite Ea. rewrite E in *. cbn [rq_items] in *.
  destruct q as [|x r]; [destruct Hq|]. cbn [tl].
  assert (Hx : x <> h). { intros ->. rewrite ahead_head in Ha. lia. }
  destruct Hq as [Hq|Hq]; [congruence|]. rewrite (ahead_cons x r h Hx). split.
  - apply in_or_app. auto.
  - rewrite ahead_app by auto. lia.
Qed.

(* ---------------------------------------------------------------- the queue primitives *)
Lemma find_last_app_last {A} (key : A -> bool) l x :
  key x = true -> find_last key (l ++ [x]) = Some (length l).
Proof.
  intros H. induction l as [|a l IH]; simpl; [rewrite H; reflexivity|]. rewrite IH. reflexivity.
Qed.
Lemma remove_nth_app_last {A} (l : list A) x : remove_nth (l ++ [x]) (length l) = l.
Proof. induction l as [|a l IH]; simpl; auto. rewrite IH. reflexivity. Qed.

(* call_soon appends: nobody moves *)
Theorem call_soon_ahead s q c h :
  ready s = RList q -> queued s h ->
  ready (call_soon_ s c) = RList (q ++ [length (handles s)]) /\
  queued (call_soon_ s c) h /\ ahead (call_soon_ s c) h = ahead s h.
Proof.
  intros E Hq. unfold call_soon_, call_soon. cbn [fst]. unfold queued, ahead, items in *.
  cbn. rewrite E in *. cbn [rq_append rq_items] in *. split; [reflexivity|]. split.
  - apply in_or_app. auto.
  - now apply ahead_app.
Qed.

(* call_pos p (call_pos itself, and through it sleep_insert / task_switch(insert_pos) /
   create_task_descend, which call call_pos 0): the new handle sits after min p len entries and
   h moves back by one exactly when p <= ahead s h *)
Theorem call_pos_ahead s q p c h :
  ready s = RList q -> queued s h -> h <> length (handles s) ->
  ready (call_pos s p c) = RList (insert_nth q p (length (handles s))) /\
  queued (call_pos s p c) h /\
  ahead (call_pos s p c) h = ahead s h + (if p <=? ahead s h then 1 else 0).
Proof.
  intros E Hq Hf. unfold call_pos, call_soon. cbn. rewrite E. cbn [rq_append rq_remove].
  rewrite find_last_app_last by apply Nat.eqb_refl. rewrite remove_nth_app_last.
  unfold queued, ahead, items in *. cbn. rewrite E in *. cbn [rq_items] in *. split; [reflexivity|]. split.
  - apply insert_nth_in. auto.
  - apply ahead_insert; auto.
Qed.

(* queue_find(key, remove=True) (the first half of task_reinsert / task_switch / task_throw /
   task_interrupt): removes the LAST entry i satisfying the key.  If that is not h, h stays and
   moves forward by one exactly when i < ahead; if it is h (the operation targets h), h is gone *)
Theorem find_remove_ahead q key i h :
  find_last key q = Some i -> In h q ->
  rq_find (RList q) key true = Some (nth i q 0, RList (remove_nth q i)) /\
  (i <> ahead_l q h ->
     In h (remove_nth q i) /\
     ahead_l (remove_nth q i) h = ahead_l q h - (if i <? ahead_l q h then 1 else 0)) /\
  (i = ahead_l q h -> NoDup q -> nth i q 0 = h /\ ~ In h (remove_nth q i)).
Proof.
  intros F Hq. cbn [rq_find]. rewrite F. split; [reflexivity|]. split.
  - intros Hi. now apply ahead_remove.
  - intros -> N. split; [now apply ahead_nth|now apply remove_self].
Qed.

(* task_reinsert t p (also the HReinsert callback of sleep_insert / task_switch): the last
   handle of task t (index i) is moved to position p.  Not h: h's index changes by the removal
   and the insertion; h itself: it now sits after min p (len-1) entries *)
Theorem task_reinsert_ahead s q t p i h :
  ready s = RList q -> find_last (task_key s t) q = Some i -> queued s h ->
  let s' := fst (task_reinsert s t p) in
  ready s' = RList (insert_nth (remove_nth q i) p (nth i q 0)) /\
  (i <> ahead s h -> nth i q 0 <> h ->
     let a := ahead s h - (if i <? ahead s h then 1 else 0) in
     queued s' h /\ ahead s' h = a + (if p <=? a then 1 else 0)) /\
  (i = ahead s h -> NoDup q ->
     queued s' h /\ ahead s' h = Nat.min p (length q - 1)).
Proof.
  intros E F Hq s'. unfold queued, ahead, items in *. rewrite E in *. cbn [rq_items] in *.
  destruct (find_remove_ahead q _ i h F Hq) as (R1 & R2 & R3).
  assert (Es : ready s' = RList (insert_nth (remove_nth q i) p (nth i q 0))).
  { unfold s', task_reinsert. rewrite E, R1. reflexivity. }
  rewrite Es. cbn [rq_items]. split; [reflexivity|]. split.
  - intros Hi Hn. destruct (R2 Hi) as [A B]. cbv zeta. split.
    + apply insert_nth_in. auto.
    + rewrite ahead_insert by auto. rewrite B. reflexivity.
  - intros Hi N. destruct (R3 Hi N) as [A B]. rewrite A. split.
    + apply insert_nth_in. auto.
    + rewrite ahead_insert_self by exact B. rewrite remove_nth_length; [reflexivity|].
      subst i. now apply ahead_in.
Qed.

(* a task_reinsert / task_switch of a task with no queued handle: ValueError, nothing changes *)
Theorem task_reinsert_none s q t p :
  ready s = RList q -> find_last (task_key s t) q = None -> task_reinsert s t p = (s, RExc EValue).
Proof. intros E F. unfold task_reinsert. rewrite E. cbn [rq_find]. rewrite F. reflexivity. Qed.

(* cancelling a handle does not touch the queue: the entry keeps its place and is popped -
   and skipped - when it reaches the head (head_step) *)
Theorem cancel_handle_ahead s h g :
  ready (cancel_handle s g) = ready s /\ ahead (cancel_handle s g) h = ahead s h /\
  hcancelled (geth (cancel_handle s g) g) = (g <? length (handles s)) || hcancelled (geth s g).
Proof.
  split; [reflexivity|]. split; [reflexivity|]. unfold cancel_handle, geth. cbn.
  generalize (handles s). intros l. revert g. induction l as [|a l IH]; intros [|g]; cbn; auto.
Qed.

(* ================================================================ 2. eventually *)
(* how many more entries are in front of h after the step than the pop alone would leave
   (0 when h is not waiting in the queue) *)
Definition pushed (s : st) (h : nat) : nat :=
  let a := ahead s h in
  if (0 <? a) && (a <? length (items s)) then ahead (do_action s AStep) h + 1 - a else 0.
(* ... summed over the next n steps *)
Fixpoint pushes (n : nat) (s : st) (h : nat) : nat :=
  match n with O => 0 | S n => pushed s h + pushes n (do_action s AStep) h end.
(* none of the next n steps takes h out of the queue while it waits behind the head *)
Fixpoint kept (n : nat) (s : st) (h : nat) : Prop :=
  match n with
  | O => True
  | S n => (queued s h -> 0 < ahead s h -> queued (do_action s AStep) h) /\
           kept n (do_action s AStep) h
  end.
(* the loop is a list loop during the next n steps *)
Fixpoint listq (n : nat) (s : st) : Prop :=
  (exists q, ready s = RList q) /\
  match n with O => True | S n => listq n (do_action s AStep) end.

Lemma steps_S' n s : steps (S n) s = steps n (do_action s AStep).
Proof. reflexivity. Qed.

Lemma steps_snoc n : forall s, steps (S n) s = do_action (steps n s) AStep.
Proof. induction n as [|n IH]; intros s; [reflexivity|]. rewrite steps_S'. rewrite IH. reflexivity. Qed.

Lemma pushed_bound s h : queued s h -> 0 < ahead s h ->
  ahead (do_action s AStep) h + 1 <= ahead s h + pushed s h.
Proof.
  intros Hq Ha. unfold pushed. cbv zeta. apply ahead_in in Hq. fold (ahead s h) in Hq.
  destruct (0 <? ahead s h) eqn:A; [|apply Nat.ltb_ge in A; lia].
  destruct (ahead s h <? length (items s)) eqn:B; [|apply Nat.ltb_ge in B; lia].
  cbn [andb]. lia.
Qed.

(* the head is reached within ahead + K steps; the step after that pops h and runs it *)
Theorem runs_eventually n : forall s h K,
  listq n s -> kept n s h -> pushes n s h <= K -> queued s h -> ahead s h + K <= n ->
  exists j rest, j <= ahead s h + K /\
    (forall i, i < j -> queued (steps i s) h /\ 0 < ahead (steps i s) h) /\
    ready (steps j s) = RList (h :: rest) /\
    do_action (steps j s) AStep =
      (let s1 := steps j s <| ready := RList rest |> in
       if hcancelled (geth (steps j s) h) then s1 else run_callback (hcb (geth (steps j s) h)) s1).
Proof.
  induction n as [|n IH]; intros s h K HL HK HP Hq Hn.
  - destruct HL as [[q E] _]. assert (A : ahead s h = 0) by lia.
    destruct (ahead0_head s q h E Hq A) as [rest ->]. exists 0, rest. split; [lia|].
    split; [intros i Hi; lia|]. split; [exact E|]. now apply head_step.
  - destruct (Nat.eq_dec (ahead s h) 0) as [A|A].
    + destruct HL as [[q E] _]. destruct (ahead0_head s q h E Hq A) as [rest ->]. exists 0, rest.
      split; [lia|]. split; [intros i Hi; lia|]. split; [exact E|]. now apply head_step.
    + destruct HL as [_ HL]. destruct HK as [HK1 HK]. cbn [pushes] in HP.
      assert (Ha : 0 < ahead s h) by lia.
      pose proof (pushed_bound s h Hq Ha) as B. pose proof (HK1 Hq Ha) as Hq'.
      destruct (IH (do_action s AStep) h (K - pushed s h) HL HK) as (j & rest & Hj & Hw & Er & Ed);
        [lia|exact Hq'|lia|].
      exists (S j), rest. rewrite steps_S'. split; [lia|]. split; [|split; [exact Er|exact Ed]].
      intros [|i] Hi; [cbn [steps]; auto|]. rewrite steps_S'. apply Hw. lia.
Qed.

(* discharging the hypotheses: a step without positional scheduling pushes nothing in front
   and keeps h *)
Lemma pushed_np s q h : ready s = RList q -> run_one_np s -> pushed s h = 0.
Proof.
  intros E Hnp. unfold pushed. cbv zeta.
  destruct (0 <? ahead s h) eqn:A; [|reflexivity].
  destruct (ahead s h <? length (items s)) eqn:B; [|reflexivity]. cbn [andb].
  apply Nat.ltb_lt in A. apply Nat.ltb_lt in B. apply ahead_in in B.
  destruct (step_np_ahead s q h E B A Hnp) as [_ C]. lia.
Qed.

Lemma np_pushes n : forall s q h, ready s = RList q -> run_np n s ->
  pushes n s h = 0 /\ kept n s h /\ listq n s.
Proof.
  induction n as [|n IH]; intros s q h E Hnp.
  - cbn. split; auto. split; auto. split; eauto.
  - destruct Hnp as [H1 H2]. destruct (run_one_fifo s q E H1) as [app Ea].
    destruct (IH (do_action s AStep) _ h Ea H2) as (P & Kp & L). cbn [pushes kept listq].
    rewrite (pushed_np s q h E H1), P. split; [reflexivity|]. split; [|split; eauto].
    split; [|exact Kp]. intros Hq Ha. now destruct (step_np_ahead s q h E Hq Ha H1).
Qed.

(* with a duplicate-free queue, [pushed] is at most the number of entries that appeared in
   front of h: "at most K entries inserted in front" bounds [pushes] *)
Lemma pushed_le_newfront s x r h :
  ready s = RList (x :: r) -> NoDup (x :: r) -> NoDup (items (do_action s AStep)) ->
  pushed s h <= newfront r (items (do_action s AStep)) h.
Proof.
  intros E N N'. unfold pushed. cbv zeta.
  destruct (0 <? ahead s h) eqn:A; [|cbn; lia].
  destruct (ahead s h <? length (items s)) eqn:B; [|cbn; lia]. cbn [andb].
  apply Nat.ltb_lt in A. pose proof (ahead_pos_head s x r h E A) as Hx.
  inversion N as [|? ? N1 N2]; subst.
  pose proof (step_balance s x r h E Hx N2 N') as C. cbv zeta in C. lia.
Qed.

(* no positional operation at all: exactly at step ahead + 1 (explicit index), with the
   callback the handle had at the start *)
Theorem runs_exactly s q h :
  ready s = RList q -> queued s h -> h < length (handles s) -> run_np (ahead s h) s ->
  exists rest, ready (steps (ahead s h) s) = RList (h :: rest) /\
    do_action (steps (ahead s h) s) AStep =
      (let s1 := steps (ahead s h) s <| ready := RList rest |> in
       if hcancelled (geth s1 h) then s1 else run_callback (hcb (geth s h)) s1).
Proof.
  intros E Hq Hh Hnp. unfold queued, ahead, items in *. rewrite E in *. cbn [rq_items] in *.
  pose proof (ahead_nth q h Hq) as En. pose proof (proj1 (ahead_in q h) Hq) as Hi.
  pose proof (handle_runs_within s q (ahead_l q h) E Hi) as W. rewrite En in W. exact (W Hh Hnp).
Qed.
