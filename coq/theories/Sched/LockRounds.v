(* C13, fourth round: the induction over rounds - "if holders eventually release, every
   acquirer that is not cancelled eventually gets the lock" - on the FIFO (list) ready queue
   in a quiet environment (LockProgress.quiet: only AStep actions, no positional scheduling).

   Fix a PriorityLock [l] and a waiter future [fw] queued on it (the entry of the acquirer w).
   [before s l g f]   : the entry of g is strictly before the entry of f in the (key, arrival)
                        order of l's heap (PriEntry.__lt__, C12_entry_order);
   [blocker s l fw g] : g <> fw is queued before fw, or has already been woken (it will take the
                        lock before w can);
   [nblk s l fw]      : the measure - number of blockers among the queued entries;
   [gain l fw s s']   : number of NEW blockers after one step (counted while fw is queued and
                        pending afterwards);
   [gains l fw n s]   : their sum over the next n steps - "w is overtaken at most A times";
   [releases_within K l n s] : whenever l is locked in a state of the run it is unlocked in a state
                        at most K steps later ("holders eventually release", in loop steps);
   [nocb l fw n s]    : no cancelled waiter behind w - every done entry is fw or a blocker.
   Main theorem [served_rounds]: within (nblk + gains + 1) * (K + M) + M steps w's own
   Task.__step (the code after `await fut` of acquire(), C13_waiter_step) is the next step. *)
From Coq Require Import QArith Sorting.Permutation.
From RecordUpdate Require Import RecordUpdate.
From Asynkit Require Import Base.Prelude Queue.PQ Queue.Order Queue.PosPQ Queue.Exec Sched.Model
  Sched.Tables Sched.QFacts Sched.LockInv Sched.Footprint Sched.LockOps Sched.LockLib
  Sched.LockProofs Sched.LockStatic Sched.LockLive Sched.LockProgress.
From Asynkit Require Sched.PartTables Sched.PartitionProofs Sched.PartitionSteps Sched.PartitionRun
  Sched.PartitionFinal.
Import RecordSetNotations.
Open Scope nat_scope.

(* ================================================================ 1. vocabulary *)
Definition ent (s : st) (l f : nat) : option (entry Q) :=
  find (fun e => Nat.eqb (Z.to_nat (eobj e)) f) (arr (lpq (getl s l))).

Definition before (s : st) (l g f : nat) : bool :=
  match ent s l g, ent s l f with
  | Some eg, Some ef => entry_lt qltb eg ef
  | _, _ => false
  end.

Definition blocker (s : st) (l fw g : nat) : bool :=
  negb (Nat.eqb g fw) && (before s l g fw || woken s g).

Definition blockers (s : st) (l fw : nat) : list nat := filter (blocker s l fw) (objs s l).
Definition nblk (s : st) (l fw : nat) : nat := length (blockers s l fw).

Definition memb (x : nat) (xs : list nat) : bool := existsb (Nat.eqb x) xs.

Definition gain (l fw : nat) (s s' : st) : nat :=
  if fdone s' fw || negb (memb fw (objs s' l)) then 0
  else length (filter (fun g => negb (memb g (blockers s l fw))) (blockers s' l fw)).

Fixpoint gains (l fw n : nat) (s : st) : nat :=
  match n with O => 0 | S n => gain l fw s (run_one s) + gains l fw n (run_one s) end.

Definition releases_within (K l n : nat) (s : st) : Prop :=
  forall i, i <= n -> llocked (getl (steps i s) l) = true ->
    exists j, i < j <= i + K /\ llocked (getl (steps j s) l) = false.

Definition nocb (l fw n : nat) (s : st) : Prop :=
  forall k, k <= n -> forall g, In g (objs (steps k s) l) -> fdone (steps k s) g = true ->
    g = fw \/ blocker (steps k s) l fw g = true.

(* w's turn: the head handle of the ready queue belongs to the task suspended in acquire()'s
   `await fw` - the next AStep is the step of C13_waiter_step *)
Definition turn (s : st) (l f t : nat) : Prop :=
  In f (objs s l) /\
  (exists had rest, tframes s t = InFut f :: InAcquireP l f had :: rest) /\
  exists h q, ready s = RList (h :: q) /\ task_of_handle s h = Some t.

Definition bound (K M m : nat) : nat := (m + 1) * (K + M) + M.

(* ================================================================ 2. counting *)
Lemma memb_in x xs : memb x xs = true <-> In x xs.
Proof.
  unfold memb. rewrite existsb_exists. split.
  - intros (y & Hy & E). apply Nat.eqb_eq in E. now subst.
  - intros H. exists x. split; auto. apply Nat.eqb_refl.
Qed.

Lemma filter_split_len {A} (p : A -> bool) (L : list A) :
  length L = length (filter p L) + length (filter (fun x => negb (p x)) L).
Proof. induction L as [|x L IH]; simpl; auto. destruct (p x); simpl; lia. Qed.

Lemma acc_gen (Lo Ln : list nat) : NoDup Ln ->
  length Ln <= length Lo + length (filter (fun g => negb (memb g Lo)) Ln).
Proof.
  intros Hn. rewrite (filter_split_len (fun g => memb g Lo) Ln).
  assert (length (filter (fun g => memb g Lo) Ln) <= length Lo); [|lia].
  apply NoDup_incl_length; [now apply NoDup_filter|].
  intros x Hx. apply filter_In in Hx as [_ Hx]. now apply memb_in.
Qed.

Lemma acc_drop (Lo Ln : list nat) f : NoDup Ln -> In f Lo -> ~ In f Ln ->
  length Ln + 1 <= length Lo + length (filter (fun g => negb (memb g Lo)) Ln).
Proof.
  intros Hn Hf Hnf. rewrite (filter_split_len (fun g => memb g Lo) Ln).
  assert (length (f :: filter (fun g => memb g Lo) Ln) <= length Lo); [|simpl in *; lia].
  apply NoDup_incl_length.
  - constructor; [|now apply NoDup_filter]. intros Hx. apply filter_In in Hx as [Hx _]. auto.
  - intros x [<-|Hx]; auto. apply filter_In in Hx as [_ Hx]. now apply memb_in.
Qed.

Lemma blockers_nodup s l fw : Inv s -> NoDup (blockers s l fw).
Proof. intros I. apply NoDup_filter. destruct (iB1 I l) as (_ & Hn & _). exact Hn. Qed.

Lemma blockers_in s l fw g : In g (blockers s l fw) <-> In g (objs s l) /\ blocker s l fw g = true.
Proof. apply filter_In. Qed.

Definition qpend (s : st) (l fw : nat) : Prop := In fw (objs s l) /\ fdone s fw = false.

Lemma gain_unfold l fw s s' : qpend s' l fw ->
  gain l fw s s' = length (filter (fun g => negb (memb g (blockers s l fw))) (blockers s' l fw)).
Proof.
  intros [Hin Hd]. unfold gain. rewrite Hd. apply memb_in in Hin. rewrite Hin. reflexivity.
Qed.

Lemma gain_acc1 l fw s : Inv (run_one s) -> qpend (run_one s) l fw ->
  nblk (run_one s) l fw <= nblk s l fw + gain l fw s (run_one s).
Proof. intros I Hd. rewrite (gain_unfold _ _ _ _ Hd). unfold nblk. apply acc_gen. now apply blockers_nodup. Qed.

Lemma gain_acc2 l fw s f : Inv (run_one s) -> qpend (run_one s) l fw ->
  In f (blockers s l fw) -> ~ In f (blockers (run_one s) l fw) ->
  nblk (run_one s) l fw + 1 <= nblk s l fw + gain l fw s (run_one s).
Proof.
  intros I Hd Hf Hnf. rewrite (gain_unfold _ _ _ _ Hd). unfold nblk.
  apply (acc_drop _ _ f); auto. now apply blockers_nodup.
Qed.

Lemma gains_add l fw a : forall b s, gains l fw (a + b) s = gains l fw a s + gains l fw b (steps a s).
Proof.
  induction a as [|a IH]; intros b s; cbn [plus gains steps]; auto.
  rewrite IH. cbn [do_action]. lia.
Qed.

Lemma gains_le l fw a b s : a <= b -> gains l fw a s <= gains l fw b s.
Proof. intros H. replace b with (a + (b - a)) by lia. rewrite gains_add. lia. Qed.

Lemma R_inv s : R s -> Inv s.
Proof. now intros (I & _). Qed.

(* the measure grows at most by the counted gains ... *)
Lemma mono_interval l fw n : forall s, R s -> quiet n s ->
  (forall j, 1 <= j <= n -> qpend (steps j s) l fw) ->
  nblk (steps n s) l fw <= nblk s l fw + gains l fw n s.
Proof.
  induction n as [|n IH]; intros s Hr Hq Hp; cbn [steps gains do_action]; [lia|].
  destruct Hq as [_ [Hsq Hq]]. pose proof (R_step s Hr (proj1 Hsq)) as Hr1.
  assert (Hd1 : qpend (run_one s) l fw) by (apply (Hp 1); lia).
  pose proof (gain_acc1 l fw s (R_inv _ Hr1) Hd1).
  assert (nblk (steps n (run_one s)) l fw <= nblk (run_one s) l fw + gains l fw n (run_one s)); [|lia].
  apply IH; auto. intros j Hj. apply (Hp (S j)). lia.
Qed.

(* ... and strictly less when a blocker stops being one (it left the queue, or was re-keyed
   behind w without having been woken) *)
Lemma drop_interval l fw n : forall s f, R s -> quiet n s ->
  (forall j, 1 <= j <= n -> qpend (steps j s) l fw) ->
  In f (blockers s l fw) -> ~ In f (blockers (steps n s) l fw) ->
  nblk (steps n s) l fw + 1 <= nblk s l fw + gains l fw n s.
Proof.
  induction n as [|n IH]; intros s f Hr Hq Hp Hf Hnf; cbn [steps gains do_action] in *; [contradiction|].
  destruct Hq as [_ [Hsq Hq]]. pose proof (R_step s Hr (proj1 Hsq)) as Hr1.
  assert (Hd1 : qpend (run_one s) l fw) by (apply (Hp 1); lia).
  assert (Hp1 : forall j, 1 <= j <= n -> qpend (steps j (run_one s)) l fw)
    by (intros j Hj; apply (Hp (S j)); lia).
  destruct (in_dec Nat.eq_dec f (blockers (run_one s) l fw)) as [Hin|Hout].
  - pose proof (gain_acc1 l fw s (R_inv _ Hr1) Hd1).
    pose proof (IH (run_one s) f Hr1 Hq Hp1 Hin Hnf). lia.
  - pose proof (gain_acc2 l fw s f (R_inv _ Hr1) Hd1 Hf Hout).
    pose proof (mono_interval l fw n (run_one s) Hr1 Hq Hp1). lia.
Qed.

(* ================================================================ 3. one step *)
Lemma rq_len_list s q : ready s = RList q -> rq_len (ready s) = length q.
Proof. intros E. unfold rq_len. now rewrite E. Qed.

(* every queued waiter whose future is done is in flight: its task has a handle in the queue *)
Lemma done_inflight s l g :
  R s -> no_external_completion s -> In g (objs s l) -> fdone s g = true ->
  exists t i, inflight s l g t i.
Proof.
  intros (I & H4 & L & I9) Hx Hg Hd.
  destruct (waiter_states PartitionFinal.qok_list s I L I9 Hx l g Hg)
    as (t & had & rest & Ht & Hfr & Hnd & [(Hp & _)|(Hb & Hh & _)]); [congruence|].
  destruct (R_ready s (conj I (conj H4 (conj L I9)))) as [q Eq].
  assert (Hpos : 0 < PartTables.cnt (task_key s t) q).
  { unfold PartTables.hcnt in Hh. rewrite Eq in Hh. simpl in Hh. lia. }
  destruct (PartTables.cnt_pos_in _ _ Hpos) as (h & Hin & Hkey).
  destruct (In_nth q h 0 Hin) as (i & Hi & Ei).
  exists t, i. split; auto. split; auto. split; [eauto|]. exists q. split; auto. split; auto.
  rewrite Ei. unfold task_key in Hkey. destruct (task_of_handle s h) as [t'|]; [|discriminate].
  apply Nat.eqb_eq in Hkey. now subst.
Qed.

Lemma inflight_turn s l f t : inflight s l f t 0 -> turn s l f t.
Proof.
  intros (Hf & _ & Hfr & q & Eq & Hi & Hth). split; auto. split; auto.
  destruct q as [|h q]; [simpl in Hi; lia|]. exists h, q. auto.
Qed.

Lemma opt_nat_dec (a b : option nat) : {a = b} + {a <> b}.
Proof. decide equality. apply Nat.eq_dec. Qed.

(* a queued entry survives every step but its own task's *)
Lemma stay_or_turn1 s l f :
  R s -> step_q s -> In f (objs s l) ->
  In f (objs (run_one s) l) \/ exists t, turn s l f t.
Proof.
  intros Hr [Hok Hnp] Hf. pose proof Hr as (I & H4 & L & I9).
  destruct (waiter_link s l f I L Hf) as (t & had & rest & Ht & Hfr).
  destruct (R_ready s Hr) as [q Eq]. destruct q as [|h q].
  - left. now rewrite (run_one_nil s Eq).
  - destruct (opt_nat_dec (task_of_handle s h) (Some t)) as [E|Hne].
    + right. exists t. split; auto. split; [eauto|]. exists h, q. auto.
    + left. pose proof (q_run_one s h q Eq Hnp) as Q.
      destruct (R_step s Hr Hok) as (I' & _).
      apply (iF2 I' t l f had).
      destruct (q_tc _ _ _ Q t ltac:(congruence)) as [E|[Hge _]].
      * change (gett (s <| ready := RList q |>) t) with (gett s t) in E.
        unfold tframes in *. rewrite E, Hfr. right. now left.
      * change (length (tasks (s <| ready := RList q |>))) with (length (tasks s)) in Hge. lia.
Qed.

(* ================================================================ 4. w's turn comes, or w stays queued and pending *)
(* a done waiter's turn comes within len(ready) steps, its entry staying queued until then *)
Lemma done_turn M s l f :
  R s -> quiet M s -> rq_len (ready s) <= M -> In f (objs s l) -> fdone s f = true ->
  exists n t, n < M /\ (forall j, j <= n -> In f (objs (steps j s) l)) /\ inflight (steps n s) l f t 0.
Proof.
  intros Hr Hq HM Hf Hd.
  destruct (done_inflight s l f Hr (quiet_ext _ _ Hq) Hf Hd) as (t & i & Hfl).
  assert (Hi : i < M).
  { destruct Hfl as (_ & _ & _ & q & Eq & Hi & _). rewrite (rq_len_list s q Eq) in HM. lia. }
  assert (Hq' : quiet (S i) s) by (apply (quiet_le M (S i) s); [lia|exact Hq]).
  destruct (inflight_exact i s l f t Hr Hq' Hfl) as [A _].
  exists i, t. split; auto. split; auto.
  intros j Hj. replace i with (j + (i - j)) in Hq', Hfl by lia.
  apply (inflight_stays j (i - j) s l f t Hr Hq' Hfl).
Qed.

Lemma rbound_step M n s : rbound M (S n) s -> rbound M n (run_one s).
Proof. intros H. apply (rbound_add M 1 n s H). Qed.

Lemma pend_or_turn M l f n : forall s,
  R s -> quiet (n + M) s -> rbound M (n + M) s -> In f (objs s l) ->
  (forall j, j <= n -> In f (objs (steps j s) l) /\ fdone (steps j s) f = false) \/
  (exists n' t, n' < n + M /\ (forall j, j <= n' -> In f (objs (steps j s) l)) /\
                turn (steps n' s) l f t).
Proof.
  induction n as [|n IH]; intros s Hr Hq Hb Hf.
  - destruct (fdone s f) eqn:Hd.
    + right. destruct (done_turn M s l f Hr Hq (Hb 0 ltac:(lia)) Hf Hd) as (n' & t & Hn & Hs & Hfl).
      exists n', t. split; [lia|]. split; auto. now apply inflight_turn.
    + left. intros j Hj. replace j with 0 by lia. auto.
  - destruct (fdone s f) eqn:Hd.
    + right.
      destruct (done_turn M s l f Hr (quiet_le (S n + M) M s ltac:(lia) Hq) (Hb 0 ltac:(lia)) Hf Hd)
        as (n' & t & Hn & Hs & Hfl).
      exists n', t. split; [lia|]. split; auto. now apply inflight_turn.
    + cbn [plus] in Hq, Hb. pose proof Hq as [_ [Hsq Hq1]].
      destruct (stay_or_turn1 s l f Hr Hsq Hf) as [Hf1|[t Ht]].
      * destruct (IH (run_one s) (R_step s Hr (proj1 Hsq)) Hq1 (rbound_step M (n + M) s Hb) Hf1)
          as [Hp|(n' & t & Hn & Hs & Ht)].
        -- left. intros j Hj. destruct j as [|j]; [auto|]. apply (Hp j). lia.
        -- right. exists (S n'), t. split; [lia|]. split; [|exact Ht].
           intros j Hj. destruct j as [|j]; [exact Hf|]. apply (Hs j). lia.
      * right. exists 0, t. split; [lia|]. split; [|exact Ht].
        intros j Hj. replace j with 0 by lia. exact Hf.
Qed.

(* ================================================================ 5. transfer along the run *)
Lemma releases_add K l a b s : releases_within K l (a + b) s -> releases_within K l b (steps a s).
Proof.
  intros H i Hi Hl. rewrite <- steps_add in Hl. destruct (H (a + i) ltac:(lia) Hl) as (j & Hj & E).
  exists (j - a). split; [lia|]. rewrite <- steps_add. replace (a + (j - a)) with j by lia. exact E.
Qed.
Lemma releases_le K l n m s : m <= n -> releases_within K l n s -> releases_within K l m s.
Proof. intros Hm H i Hi. apply H. lia. Qed.
Lemma nocb_add l fw a b s : nocb l fw (a + b) s -> nocb l fw b (steps a s).
Proof. intros H k Hk g. rewrite <- steps_add. apply H. lia. Qed.
Lemma nocb_le l fw n m s : m <= n -> nocb l fw n s -> nocb l fw m s.
Proof. intros Hm H k Hk. apply H. lia. Qed.

(* ================================================================ 6. one round *)
(* From any state in which w's entry is queued: within K + 2M steps w's turn comes, or after
   n1 <= K + M steps (the holder releases within K, the waiter in flight runs within M) the
   measure has dropped by one more than the gains counted meanwhile *)
Lemma round K M l fw s :
  R s -> lkind_ (getl s l) = LPrio -> In fw (objs s l) ->
  quiet (K + M + M) s -> rbound M (K + M + M) s ->
  releases_within K l 0 s -> nocb l fw K s ->
  (exists n t, n < K + M + M /\ (forall j, j <= n -> In fw (objs (steps j s) l)) /\
               turn (steps n s) l fw t) \/
  (exists n1, 1 <= n1 <= K + M /\
     (forall j, j <= n1 -> In fw (objs (steps j s) l)) /\
     nblk (steps n1 s) l fw + 1 <= nblk s l fw + gains l fw n1 s).
Proof.
  intros Hr Hk Hf Hq Hb Hrel Hcb.
  destruct (pend_or_turn M l fw (K + M) s Hr Hq Hb Hf) as [Hp|Ht]; [|now left]. right.
  (* a state within K steps in which the lock is free *)
  assert (Hfree : exists j, j <= K /\ llocked (getl (steps j s) l) = false).
  { destruct (llocked (getl s l)) eqn:Hl.
    - destruct (Hrel 0 (le_n _) Hl) as (j & Hj & E). exists j. split; [lia|exact E].
    - exists 0. split; [lia|exact Hl]. }
  destruct Hfree as (j & Hj & Hl).
  destruct (quiet_add j (K + M + M - j) s) as [Hqj Hqj']; [replace (j + (K + M + M - j)) with (K + M + M) by lia; exact Hq|].
  pose proof (R_steps j s Hr Hqj) as Hrj.
  destruct (Hp j ltac:(lia)) as [Hfj Hdj].
  assert (HMj : rq_len (ready (steps j s)) <= M) by (apply Hb; lia).
  assert (Hkj : lkind_ (getl (steps j s) l) = LPrio) by (rewrite (steps_kind l j s Hr Hqj); exact Hk).
  assert (Hne : objs (steps j s) l <> []) by (intros E; rewrite E in Hfj; destruct Hfj).
  destruct (free_lock_taken (steps j s) l Hrj
              (quiet_le (K + M + M - j) (rq_len (ready (steps j s))) (steps j s) ltac:(lia) Hqj') Hkj Hl Hne)
    as (f & t & i & Hfl & Hi & _ & _ & Hout).
  assert (Hfin : In f (objs (steps j s) l)) by apply Hfl.
  assert (Hfd : fdone (steps j s) f = true) by apply Hfl.
  assert (Hbl : In f (blockers (steps j s) l fw)).
  { apply blockers_in. split; auto. destruct (Hcb j Hj f Hfin Hfd) as [->|H]; [congruence|exact H]. }
  set (n1 := j + S i). assert (Hn1 : n1 <= K + M) by (unfold n1; lia).
  exists n1. split; [unfold n1; lia|]. split; [intros j0 Hj0; apply Hp; lia|].
  assert (Hpend : forall j0, 1 <= j0 <= n1 -> qpend (steps j0 s) l fw) by (intros j0 Hj0; apply Hp; lia).
  pose proof (mono_interval l fw j s Hr Hqj ltac:(intros j0 Hj0; apply Hpend; unfold n1; lia)) as A1.
  assert (Hq2 : quiet (S i) (steps j s)) by (apply (quiet_le (K + M + M - j) (S i)); [lia|exact Hqj']).
  assert (A2 : nblk (steps (S i) (steps j s)) l fw + 1 <= nblk (steps j s) l fw + gains l fw (S i) (steps j s)).
  { apply (drop_interval l fw (S i) (steps j s) f Hrj Hq2); auto.
    - intros j0 Hj0. rewrite <- steps_add. apply Hpend. unfold n1. lia.
    - intros H. apply blockers_in in H as [H _]. exact (Hout H). }
  unfold n1. rewrite steps_add, gains_add. lia.
Qed.

(* ================================================================ 7. the induction over rounds *)
Theorem served_rounds K M l fw : forall m s,
  R s -> lkind_ (getl s l) = LPrio -> In fw (objs s l) ->
  quiet (bound K M m) s -> rbound M (bound K M m) s ->
  releases_within K l (bound K M m) s -> nocb l fw (bound K M m) s ->
  nblk s l fw + gains l fw (bound K M m) s <= m ->
  exists n t, n < bound K M m /\ (forall j, j <= n -> In fw (objs (steps j s) l)) /\
              turn (steps n s) l fw t.
Proof.
  induction m as [|m IH]; intros s Hr Hk Hf Hq Hb Hrel Hcb Hm.
  - assert (E : bound K M 0 = K + M + M) by (unfold bound; lia). rewrite E in *.
    destruct (round K M l fw s Hr Hk Hf Hq Hb (releases_le K l (K + M + M) 0 s ltac:(lia) Hrel)
                (nocb_le l fw (K + M + M) K s ltac:(lia) Hcb)) as [Ht|(n1 & Hn1 & _ & Hacc)]; [exact Ht|].
    exfalso. pose proof (gains_le l fw n1 (K + M + M) s ltac:(lia)). lia.
  - assert (E : bound K M (S m) = (K + M) + bound K M m) by (unfold bound; lia).
    assert (E0 : K + M + M <= bound K M (S m)) by (unfold bound; lia).
    destruct (round K M l fw s Hr Hk Hf (quiet_le _ _ s E0 Hq) (rbound_le M _ _ s E0 Hb)
                (releases_le K l (bound K M (S m)) 0 s ltac:(lia) Hrel)
                (nocb_le l fw (bound K M (S m)) K s ltac:(lia) Hcb))
      as [(n & t & Hn & Hs & Ht)|(n1 & Hn1 & Hs1 & Hacc)].
    { exists n, t. split; [lia|]. split; auto. }
    assert (E1 : bound K M (S m) = n1 + (bound K M (S m) - n1)) by lia.
    rewrite E1 in Hq, Hb, Hrel, Hcb, Hm.
    destruct (quiet_add n1 _ s Hq) as [Hq1 Hq2]. rewrite gains_add in Hm.
    assert (Hle : bound K M m <= bound K M (S m) - n1) by lia.
    destruct (IH (steps n1 s)) as (n & t & Hn & Hs & Ht).
    + apply (R_steps n1 s Hr Hq1).
    + rewrite (steps_kind l n1 s Hr Hq1). exact Hk.
    + apply Hs1. lia.
    + apply (quiet_le _ _ _ Hle Hq2).
    + apply (rbound_le M _ _ _ Hle). apply (rbound_add M n1 _ s Hb).
    + apply (releases_le K l _ _ _ Hle). apply (releases_add K l n1 _ s Hrel).
    + apply (nocb_le l fw _ _ _ Hle). apply (nocb_add l fw n1 _ s Hcb).
    + pose proof (gains_le l fw _ _ (steps n1 s) Hle). lia.
    + exists (n1 + n), t. split; [lia|]. split.
      * intros j Hj. destruct (Nat.le_gt_cases j n1) as [Hl|Hg]; [apply Hs1; exact Hl|].
        replace j with (n1 + (j - n1)) by lia. rewrite steps_add. apply Hs. lia.
      * rewrite steps_add. exact Ht.
Qed.

(* ================================================================ 8. what the turn is *)
(* When w's turn has come and w was woken with the result and not cancelled meanwhile, the next
   step makes its task the owner (LockProgress.woken_head_takes_lock; otherwise
   LockProgress.step_detail = C13_waiter_step applies: the entry leaves, the wake-up is passed on) *)
Theorem turn_served s l f t :
  R s -> no_external_completion s -> turn s l f t ->
  forall v h q had rest k,
    ready s = RList (h :: q) -> hcb (geth s h) = HWakeup t f -> fstate_ (getf s f) = FResult v ->
    tcont_ (gett s t) = TSusp (InFut f :: InAcquireP l f had :: rest) k ->
    tmustc (gett s t) = false ->
    let s1 := step_pre (s <| ready := RList q |>) t in
    let s4 := fst (acquire_p_finish s1 t l f had (RVal v)) in
    run_one s = step_post t rest k (RVal 1) s4 /\
    lowner (getl s4 l) = Some t /\ llocked (getl s4 l) = true /\ ~ In f (objs s4 l).
Proof.
  intros Hr Hx (_ & (had0 & rest0 & Hfr) & _) v h q had rest k Eq Hcb Hs Hk Hm.
  assert (Hd : tdone s t = false).
  { destruct (tdone s t) eqn:E; auto. rewrite (Hx t E) in Hfr. discriminate. }
  exact (woken_head_takes_lock s l f t v had rest k h q Hr Eq Hcb Hs Hd Hk Hm).
Qed.

(* ================================================================ 9. boolean checkers for the run-checked hypotheses *)
Definition relb (K l n : nat) (s : st) : bool :=
  forallb (fun i => negb (llocked (getl (steps i s) l)) ||
                    existsb (fun d => negb (llocked (getl (steps (i + S d) s) l))) (seq 0 K))
          (seq 0 (S n)).
Lemma relb_ok K l n s : relb K l n s = true -> releases_within K l n s.
Proof.
  intros H i Hi Hl. unfold relb in H. rewrite forallb_forall in H.
  specialize (H i ltac:(apply in_seq; lia)). rewrite Hl in H. simpl in H.
  apply existsb_exists in H as (d & Hd & E). apply in_seq in Hd.
  exists (i + S d). split; [lia|]. destruct (llocked (getl (steps (i + S d) s) l)); [discriminate|reflexivity].
Qed.

Definition nocbb (l fw n : nat) (s : st) : bool :=
  forallb (fun k => forallb (fun g => negb (fdone (steps k s) g) || Nat.eqb g fw ||
                                      blocker (steps k s) l fw g) (objs (steps k s) l))
          (seq 0 (S n)).
Lemma nocbb_ok l fw n s : nocbb l fw n s = true -> nocb l fw n s.
Proof.
  intros H k Hk g Hg Hd. unfold nocbb in H. rewrite forallb_forall in H.
  specialize (H k ltac:(apply in_seq; lia)). rewrite forallb_forall in H. specialize (H g Hg).
  rewrite Hd in H. simpl in H. apply orb_prop in H as [H|H]; [left; now apply Nat.eqb_eq|now right].
Qed.

Definition rboundb (M n : nat) (s : st) : bool :=
  forallb (fun k => Nat.leb (rq_len (ready (steps k s))) M) (seq 0 (S n)).
Lemma rboundb_ok M n s : rboundb M n s = true -> rbound M n s.
Proof.
  intros H k Hk. unfold rboundb in H. rewrite forallb_forall in H.
  apply Nat.leb_le. apply H. apply in_seq. lia.
Qed.
