(* A frame fact of the scheduler model, for every operation, every user program and every
   state: whatever is done below the level of Task.__step, and whatever other tasks' steps and
   the loop's callbacks do, a task's entry keeps its kind, its future and its continuation, and
   its _fut_waiter is either unchanged or cleared (by task_throw) - never set.  Only the task's
   own step changes them.  (Same proof architecture as FrameFacts.v.) *)
From Coq Require Import QArith.
From RecordUpdate Require Import RecordUpdate.
From Asynkit Require Import Base.Prelude Queue.ListFacts Queue.PQ Queue.PosPQ Queue.Exec
     Sched.Model Sched.PartTables Sched.PartitionProofs.
Import RecordSetNotations.
Open Scope nat_scope.

Definition tsame (x y : task) : Prop :=
  tkind_ y = tkind_ x /\ tfut y = tfut x /\ tcont_ y = tcont_ x /\
  (twaiter y = twaiter x \/ twaiter y = None).
Definition Tf (t : nat) (s0 s : st) : Prop :=
  length (tasks s0) <= length (tasks s) /\ (t < length (tasks s0) -> tsame (gett s0 t) (gett s t)).

Lemma tsame_refl x : tsame x x.
Proof. repeat split; auto. Qed.
Lemma tsame_trans x y z : tsame x y -> tsame y z -> tsame x z.
Proof.
  intros (a1 & a2 & a3 & a4) (b1 & b2 & b3 & b4). repeat split; try congruence.
  destruct b4 as [b4|b4]; [destruct a4 as [a4|a4]; [left|right]; congruence|right; exact b4].
Qed.
Lemma Tf_refl t s : Tf t s s.
Proof. split; [lia|intros; apply tsame_refl]. Qed.
Lemma Tf_trans t s1 s2 s3 : Tf t s1 s2 -> Tf t s2 s3 -> Tf t s1 s3.
Proof.
  intros [A1 A2] [B1 B2]. split; [lia|]. intros H. eapply tsame_trans; [apply A2; exact H|apply B2; lia].
Qed.
Lemma Tf_same t s0 s s' : tasks s' = tasks s -> Tf t s0 s -> Tf t s0 s'.
Proof. intros E [A1 A2]. unfold Tf, gett in *. rewrite E. auto. Qed.

Lemma Tf_setf t0 s0 s f x : Tf t0 s0 s -> Tf t0 s0 (setf s f x). Proof. apply Tf_same; reflexivity. Qed.
Lemma Tf_setl t0 s0 s l x : Tf t0 s0 s -> Tf t0 s0 (setl s l x). Proof. apply Tf_same; reflexivity. Qed.
Lemma Tf_setc t0 s0 s l x : Tf t0 s0 s -> Tf t0 s0 (setc s l x). Proof. apply Tf_same; reflexivity. Qed.
Lemma Tf_sete t0 s0 s l x : Tf t0 s0 s -> Tf t0 s0 (sete s l x). Proof. apply Tf_same; reflexivity. Qed.
Lemma Tf_ready t0 s0 s r : Tf t0 s0 s -> Tf t0 s0 (s <| ready := r |>). Proof. apply Tf_same; reflexivity. Qed.
Lemma Tf_handles t0 s0 s r : Tf t0 s0 s -> Tf t0 s0 (s <| handles := r |>). Proof. apply Tf_same; reflexivity. Qed.
Lemma Tf_timers t0 s0 s r : Tf t0 s0 s -> Tf t0 s0 (s <| timers := r |>). Proof. apply Tf_same; reflexivity. Qed.
Lemma Tf_adderr t0 s0 s e : Tf t0 s0 s -> Tf t0 s0 (adderr s e). Proof. apply Tf_same; reflexivity. Qed.
Lemma Tf_addlog t0 s0 s n : Tf t0 s0 s -> Tf t0 s0 (addlog s n). Proof. apply Tf_same; reflexivity. Qed.
Lemma Tf_new_future t0 s0 s o : Tf t0 s0 s -> Tf t0 s0 (fst (new_future s o)). Proof. apply Tf_same; reflexivity. Qed.
Lemma Tf_new_future_eq t0 s0 s o s' f : new_future s o = (s', f) -> Tf t0 s0 s -> Tf t0 s0 s'.
Proof. intros E. inversion E. apply Tf_same; reflexivity. Qed.
Lemma Tf_call_soon t0 s0 s c : Tf t0 s0 s -> Tf t0 s0 (call_soon_ s c). Proof. apply Tf_same; reflexivity. Qed.
Lemma Tf_call_at_eq t0 s0 s w c s' h : call_at s w c = (s', h) -> Tf t0 s0 s -> Tf t0 s0 s'.
Proof. intros E. inversion E. apply Tf_same; reflexivity. Qed.
Lemma Tf_cancel_handle t0 s0 s h : Tf t0 s0 s -> Tf t0 s0 (cancel_handle s h). Proof. apply Tf_same; reflexivity. Qed.
Lemma Tf_call_pos t0 s0 s p c : Tf t0 s0 s -> Tf t0 s0 (call_pos s p c).
Proof.
  intros H. unfold call_pos. rewrite call_soon_eq. destruct (rq_remove _ _).
  - apply Tf_ready, Tf_call_soon, H.
  - apply Tf_call_soon, H.
Qed.

(* writing a task entry: allowed if, when it is t0's, it keeps kind, future, continuation and
   keeps or clears the waiter *)
Lemma Tf_sett t0 s0 s t x :
  (t = t0 -> tsame (gett s t0) x) -> Tf t0 s0 s -> Tf t0 s0 (sett s t x).
Proof.
  intros Hx [A1 A2]. split; [rewrite length_tasks_sett; exact A1|]. intros H.
  rewrite gett_sett. destruct (_ && _) eqn:B; [|auto].
  apply andb_prop in B. destruct B as [B _]. apply Nat.eqb_eq in B. subst t.
  eapply tsame_trans; [apply A2; exact H|apply Hx; reflexivity].
Qed.
Lemma Tf_tasks_app t0 s0 s x : Tf t0 s0 s -> Tf t0 s0 (s <| tasks := tasks s ++ [x] |>).
Proof.
  intros [A1 A2]. split; [cbn; rewrite app_length; lia|]. intros H.
  unfold gett at 2. cbn. rewrite app_nth1 by lia. apply A2. exact H.
Qed.

Ltac tf_side :=
  first [ let Heq := fresh "Heq" in
          intros Heq; try rewrite Heq in *; split; [reflexivity|split; [reflexivity|split; [reflexivity|
            first [left; reflexivity|right; reflexivity]]]]
        | intros Heq; exfalso; congruence
        | intros Heq; exfalso; auto; fail ].

Ltac case_goal_Tf :=
  match goal with
  | |- Tf _ _ (if ?b then _ else _) => destruct b eqn:?
  | |- Tf _ _ (match ?x with _ => _ end) =>
      lazymatch type of x with
      | prod _ _ => let a := fresh "s" in let b := fresh "r" in destruct x as [a b] eqn:?
      | _ => destruct x eqn:?
      end
  | |- Tf _ _ (fst (if ?b then _ else _)) => destruct b eqn:?
  | |- Tf _ _ (fst (match ?x with _ => _ end)) =>
      lazymatch type of x with
      | prod _ _ => let a := fresh "s" in let b := fresh "r" in destruct x as [a b] eqn:?
      | _ => destruct x eqn:?
      end
  | |- Tf _ _ (fst (_, _)) => cbn [fst]
  end.

Ltac tprim := fail.
Ltac tstep :=
  first
    [ assumption
    | apply Tf_call_soon | apply Tf_cancel_handle | apply Tf_call_pos
    | apply Tf_setf | (apply Tf_sett; [tf_side|]) | apply Tf_setl | apply Tf_setc | apply Tf_sete | apply Tf_ready
    | apply Tf_handles | apply Tf_timers | apply Tf_adderr | apply Tf_addlog | apply Tf_new_future
    | eapply Tf_new_future_eq; [eassumption|]
    | eapply Tf_call_at_eq; [eassumption|]
    | tprim
    | case_goal_Tf ].
Ltac tgo := repeat tstep.
(* from an equation E : f ... = (s', r) *)
Ltac top E := repeat case_in E; inversion E; subst; clear E; tgo.

Lemma Tf_fold {A} t0 (f : st -> A -> st) :
  (forall s0 s a, Tf t0 s0 s -> Tf t0 s0 (f s a)) ->
  forall l s0 s, Tf t0 s0 s -> Tf t0 s0 (fold_left f l s).
Proof. intros H. induction l as [|a l IH]; intros s0 s HG; simpl; auto. Qed.

Lemma Tf_schedule_callbacks t0 s0 s f : Tf t0 s0 s -> Tf t0 s0 (schedule_callbacks s f).
Proof.
  intros H. unfold schedule_callbacks. apply Tf_fold; [intros; apply Tf_call_soon; auto|]. tgo.
Qed.

Lemma Tf_fut_finish t0 s0 s f x s' ok : fut_finish s f x = (s', ok) -> Tf t0 s0 s -> Tf t0 s0 s'.
Proof.
  intros E H. unfold fut_finish in E. destruct (fstate_ (getf s f)); inversion E; subst; auto.
  apply Tf_schedule_callbacks. tgo.
Qed.
Lemma Tf_fut_finish_fst t0 s0 s f x : Tf t0 s0 s -> Tf t0 s0 (fst (fut_finish s f x)).
Proof. intros H. destruct (fut_finish s f x) eqn:E. eapply Tf_fut_finish; eauto. Qed.

Lemma Tf_add_done_callback t0 s0 s f c : Tf t0 s0 s -> Tf t0 s0 (add_done_callback s f c).
Proof. intros H. unfold add_done_callback. tgo. Qed.
Lemma Tf_remove_done_callback t0 s0 s f c : Tf t0 s0 s -> Tf t0 s0 (remove_done_callback s f c).
Proof. intros H. unfold remove_done_callback. tgo. Qed.

Ltac tprim ::=
  first
    [ eapply Tf_fut_finish; [eassumption|]
    | apply Tf_fut_finish_fst | apply Tf_schedule_callbacks
    | apply Tf_add_done_callback | apply Tf_remove_done_callback ].

Lemma Tf_task_cancel t0 s0 : forall fuel s t s' ok, task_cancel fuel s t = (s', ok) -> Tf t0 s0 s -> Tf t0 s0 s'.
Proof.
  induction fuel as [|fuel IH]; intros s t s' ok E H; cbn [task_cancel] in E.
  - top E.
  - repeat case_in E; inversion E; subst; clear E; tgo;
      match goal with Hc : task_cancel fuel _ _ = _ |- _ => try (eapply IH in Hc; [|eassumption]) end; tgo.
Qed.
Lemma Tf_cancel_task t0 s0 s t s' ok : cancel_task s t = (s', ok) -> Tf t0 s0 s -> Tf t0 s0 s'.
Proof. apply Tf_task_cancel. Qed.
Lemma Tf_cancel_awaitable t0 s0 s f s' ok : cancel_awaitable s f = (s', ok) -> Tf t0 s0 s -> Tf t0 s0 s'.
Proof.
  unfold cancel_awaitable. destruct (fowner (getf s f)); [apply Tf_cancel_task|apply Tf_fut_finish].
Qed.

Ltac tprim ::=
  first
    [ eapply Tf_fut_finish; [eassumption|]
    | apply Tf_fut_finish_fst | apply Tf_schedule_callbacks
    | apply Tf_add_done_callback | apply Tf_remove_done_callback
    | eapply Tf_task_cancel; [eassumption|]
    | eapply Tf_cancel_task; [eassumption|]
    | eapply Tf_cancel_awaitable; [eassumption|] ].

(* ------------------------------------------------------------ locks *)
Lemma Tf_take_lock t0 s0 s l t s' : take_lock s l t = inl s' -> Tf t0 s0 s -> Tf t0 s0 s'.
Proof. intros E H. unfold take_lock in E. top E. Qed.

Lemma Tf_wake_up_first_p t0 s0 s l : Tf t0 s0 s -> Tf t0 s0 (wake_up_first_p s l).
Proof. intros H. unfold wake_up_first_p. tgo. Qed.
Lemma Tf_wake_up_first_a t0 s0 s l : Tf t0 s0 s -> Tf t0 s0 (wake_up_first_a s l).
Proof. intros H. unfold wake_up_first_a. tgo. Qed.
Lemma Tf_task_reschedule t0 s0 s t : Tf t0 s0 s -> Tf t0 s0 (task_reschedule s t).
Proof. intros H. unfold task_reschedule. tgo. Qed.

Lemma Tf_propagate_task t0 s0 : forall fuel s t, Tf t0 s0 s -> Tf t0 s0 (propagate_task fuel s t).
Proof.
  induction fuel as [|fuel IH]; intros s t H; cbn [propagate_task].
  - destruct (negb _); auto.
    set (s' := if task_is_runnable s t then task_reschedule s t else s).
    assert (H' : Tf t0 s0 s') by (unfold s'; destruct (task_is_runnable s t); [apply Tf_task_reschedule|]; auto).
    clearbody s'. clear H s. rename s' into s, H' into H.
    destruct (twaiting _); auto.
  - destruct (negb _); auto.
    set (s' := if task_is_runnable s t then task_reschedule s t else s).
    assert (H' : Tf t0 s0 s') by (unfold s'; destruct (task_is_runnable s t); [apply Tf_task_reschedule|]; auto).
    clearbody s'. clear H s. rename s' into s, H' into H.
    destruct (twaiting (gett s t)) as [l|]; auto.
    set (s1 := match lowner (getl s l) with Some o => propagate_task fuel s o | None => s end).
    assert (H1 : Tf t0 s0 s1) by (unfold s1; destruct (lowner (getl s l)); auto).
    clearbody s1. tgo.
Qed.
Lemma Tf_propagate_priority t0 s0 s t : Tf t0 s0 s -> Tf t0 s0 (propagate_priority s t).
Proof. apply Tf_propagate_task. Qed.

Lemma Tf_fut_result t0 s0 s f s' r : fut_result s f = (s', r) -> Tf t0 s0 s -> Tf t0 s0 s'.
Proof. intros E H. unfold fut_result in E. top E. Qed.
Lemma Tf_await_fut t0 s0 s f outer s' r : await_fut s f outer = (s', r) -> Tf t0 s0 s -> Tf t0 s0 s'.
Proof.
  intros E H. unfold await_fut in E. destruct (fdone s f).
  - destruct (fut_result s f) as [s1 r1] eqn:F. inversion E; subst. eapply Tf_fut_result; eauto.
  - inversion E; subst. tgo.
Qed.

Ltac tprim ::=
  first
    [ eapply Tf_fut_finish; [eassumption|]
    | apply Tf_fut_finish_fst | apply Tf_schedule_callbacks
    | apply Tf_add_done_callback | apply Tf_remove_done_callback
    | eapply Tf_task_cancel; [eassumption|]
    | eapply Tf_cancel_task; [eassumption|]
    | eapply Tf_cancel_awaitable; [eassumption|]
    | eapply Tf_take_lock; [eassumption|]
    | apply Tf_wake_up_first_p | apply Tf_wake_up_first_a | apply Tf_task_reschedule
    | apply Tf_propagate_priority
    | eapply Tf_fut_result; [eassumption|]
    | eapply Tf_await_fut; [eassumption|] ].

Lemma Tf_acquire_p_start t0 s0 s t l s' r : acquire_p_start s t l = (s', r) -> Tf t0 s0 s -> Tf t0 s0 s'.
Proof. intros E H. unfold acquire_p_start in E. top E. Qed.
Lemma Tf_acquire_p_finish t0 s0 s t l f had inp s' r :
  acquire_p_finish s t l f had inp = (s', r) -> Tf t0 s0 s -> Tf t0 s0 s'.
Proof.
  intros E H. unfold acquire_p_finish in E.
  set (p := match inp with RVal _ => _ | RExc e => (s, RExc e) end) in E.
  assert (H1 : Tf t0 s0 (fst p)).
  { unfold p. destruct inp; [|exact H]. destruct (take_lock s l t) eqn:T; [|exact H].
    eapply Tf_take_lock; eauto. }
  destruct p as [s1 r1]. cbn [fst] in H1. inversion E; subst. tgo.
Qed.
Lemma Tf_release_p t0 s0 s t l s' r : release_p s t l = (s', r) -> Tf t0 s0 s -> Tf t0 s0 s'.
Proof. intros E H. unfold release_p in E. top E. Qed.
Lemma Tf_acquire_a_start t0 s0 s l s' r : acquire_a_start s l = (s', r) -> Tf t0 s0 s -> Tf t0 s0 s'.
Proof. intros E H. unfold acquire_a_start in E. top E. Qed.
Lemma Tf_acquire_a_finish t0 s0 s l f inp s' r : acquire_a_finish s l f inp = (s', r) -> Tf t0 s0 s -> Tf t0 s0 s'.
Proof. intros E H. unfold acquire_a_finish in E. top E. Qed.
Lemma Tf_release_a t0 s0 s l s' r : release_a s l = (s', r) -> Tf t0 s0 s -> Tf t0 s0 s'.
Proof. intros E H. unfold release_a in E. top E. Qed.
Lemma Tf_acquire_start t0 s0 s t l s' r : acquire_start s t l = (s', r) -> Tf t0 s0 s -> Tf t0 s0 s'.
Proof.
  unfold acquire_start. destruct (lkind_ (getl s l)); [apply Tf_acquire_p_start|apply Tf_acquire_a_start].
Qed.
Lemma Tf_release t0 s0 s t l s' r : release s t l = (s', r) -> Tf t0 s0 s -> Tf t0 s0 s'.
Proof. unfold release. destruct (lkind_ (getl s l)); [apply Tf_release_p|apply Tf_release_a]. Qed.

(* ------------------------------------------------------------ throw / reinsert *)
Lemma Tf_task_throw t0 s0 s t e s' r : task_throw s t e = (s', r) -> Tf t0 s0 s -> Tf t0 s0 s'.
Proof. intros E H. unfold task_throw in E. top E. Qed.
Lemma Tf_task_reinsert t0 s0 s t p s' r : task_reinsert s t p = (s', r) -> Tf t0 s0 s -> Tf t0 s0 s'.
Proof. intros E H. unfold task_reinsert in E. top E. Qed.
Lemma Tf_task_interrupt_start t0 s0 s t e s' r : task_interrupt_start s t e = (s', r) -> Tf t0 s0 s -> Tf t0 s0 s'.
Proof.
  intros E H. unfold task_interrupt_start in E.
  destruct (task_throw s t e) as [s1 r1] eqn:T. pose proof (Tf_task_throw _ _ _ _ _ _ _ T H) as H1.
  destruct r1; [|inversion E; subst; auto].
  destruct (task_reinsert s1 t 0) as [s2 r2] eqn:R. pose proof (Tf_task_reinsert _ _ _ _ _ _ _ R H1) as H2.
  destruct r2; inversion E; subst; auto.
Qed.
Lemma Tf_interruptor t0 s0 : forall fuel s b i s' r, interruptor fuel s b i = (s', r) -> Tf t0 s0 s -> Tf t0 s0 s'.
Proof.
  induction fuel as [|fuel IH]; intros s b i s' r E H; cbn [interruptor] in E.
  - inversion E; subst; auto.
  - destruct (Nat.leb 3 i); [inversion E; subst; auto|].
    destruct (negb _); [eapply IH; eauto|].
    destruct (task_interrupt_start s _ _) as [s1 r1] eqn:T.
    pose proof (Tf_task_interrupt_start _ _ _ _ _ _ _ T H) as H1.
    repeat case_in E; inversion E; subst; auto; eapply IH; eauto.
Qed.
Lemma interruptor_wrap_fst s r : fst (interruptor_wrap s r) = s.
Proof. unfold interruptor_wrap. destruct r as [[|e]|]; auto. destruct (is_exception e); auto. Qed.
Lemma Tf_interruptor_wrap t0 s0 s r s' r' : interruptor_wrap s r = (s', r') -> Tf t0 s0 s -> Tf t0 s0 s'.
Proof. intros E H. pose proof (interruptor_wrap_fst s r) as F. rewrite E in F. simpl in F. subst. exact H. Qed.

(* ------------------------------------------------------------ conditions *)
Lemma Tf_notify_p t0 s0 s c n : Tf t0 s0 s -> Tf t0 s0 (notify_p s c n).
Proof.
  intros H. unfold notify_p.
  match goal with |- context [fold_left ?F ?l ?a] =>
    assert (HF : Tf t0 s0 (fst (fst (fold_left F l a)))) end.
  { match goal with |- context [fold_left ?F ?l ?a] => generalize l; intros l0 end.
    assert (X : forall l (a : st * nat * nat), Tf t0 s0 (fst (fst a)) ->
      Tf t0 s0 (fst (fst (fold_left (fun '(s1, taken, cnt) (f : nat) =>
               if n <=? cnt then (s1, taken, cnt)
               else if fdone s1 f then (s1, S taken, cnt)
                    else (fst (fut_finish s1 f (FResult 1)), S taken, S cnt)) l a)))).
    { induction l as [|f l IH]; intros [[s1 tk] cnt] Ha; simpl; auto. apply IH.
      destruct (n <=? cnt); auto. destruct (fdone s1 f); auto. simpl. tgo. }
    apply X. exact H. }
  destruct (fold_left _ _ _) as [[s1 tk] cnt]. cbn [fst] in HF. tgo.
Qed.
Lemma Tf_notify_i t0 s0 s c n : Tf t0 s0 s -> Tf t0 s0 (notify_i s c n).
Proof.
  intros H. unfold notify_i.
  assert (X : forall l (a : st * nat), Tf t0 s0 (fst a) ->
    Tf t0 s0 (fst (fold_left (fun '(s1, cnt) (f : nat) =>
             if n <=? cnt then (s1, cnt)
             else if fdone s1 f then (s1, cnt)
                  else (fst (fut_finish s1 f (FResult 0)), S cnt)) l a))).
  { induction l as [|f l IH]; intros [s1 cnt] Ha; simpl; auto. apply IH.
    destruct (n <=? cnt); auto. destruct (fdone s1 f); auto. simpl. tgo. }
  apply X. exact H.
Qed.
Lemma Tf_reacquire t0 s0 s t c pc err body s' r :
  reacquire s t c pc err body = (s', r) -> Tf t0 s0 s -> Tf t0 s0 s'.
Proof.
  intros E H. unfold reacquire in E.
  destruct (acquire_start s t _) as [s1 r1] eqn:A. pose proof (Tf_acquire_start _ _ _ _ _ _ _ A H).
  repeat case_in E; inversion E; subst; auto.
Qed.
Lemma Tf_cond_p_after t0 s0 s c r s' r' : cond_p_after s c r = (s', r') -> Tf t0 s0 s -> Tf t0 s0 s'.
Proof. intros E H. unfold cond_p_after in E. destruct r; inversion E; subst; auto. apply Tf_notify_p; auto. Qed.
Lemma Tf_queue_iterated t0 s0 s : Tf t0 s0 s -> Tf t0 s0 (queue_iterated s).
Proof. intros H. unfold queue_iterated. tgo. Qed.

Ltac tprim ::=
  first
    [ eapply Tf_fut_finish; [eassumption|]
    | apply Tf_fut_finish_fst | apply Tf_schedule_callbacks
    | apply Tf_add_done_callback | apply Tf_remove_done_callback
    | eapply Tf_task_cancel; [eassumption|]
    | eapply Tf_cancel_task; [eassumption|]
    | eapply Tf_cancel_awaitable; [eassumption|]
    | eapply Tf_take_lock; [eassumption|]
    | apply Tf_wake_up_first_p | apply Tf_wake_up_first_a | apply Tf_task_reschedule
    | apply Tf_propagate_priority
    | eapply Tf_fut_result; [eassumption|]
    | eapply Tf_await_fut; [eassumption|]
    | eapply Tf_acquire_start; [eassumption|]
    | eapply Tf_release; [eassumption|]
    | eapply Tf_acquire_p_finish; [eassumption|]
    | eapply Tf_acquire_a_finish; [eassumption|]
    | eapply Tf_task_throw; [eassumption|]
    | eapply Tf_task_reinsert; [eassumption|]
    | eapply Tf_task_interrupt_start; [eassumption|]
    | eapply Tf_interruptor; [eassumption|]
    | eapply Tf_interruptor_wrap; [eassumption|]
    | apply Tf_notify_p | apply Tf_notify_i | apply Tf_queue_iterated
    | eapply Tf_reacquire; [eassumption|]
    | eapply Tf_cond_p_after; [eassumption|] ].

(* ------------------------------------------------------------ timeout blocks *)
Lemma Tf_blocks_app t0 s0 s x : Tf t0 s0 s -> Tf t0 s0 (s <| blocks := blocks s ++ [x] |>).
Proof. apply Tf_same; reflexivity. Qed.

Lemma Tf_setb_exit t0 s0 s b :
  Tf t0 s0 s -> Tf t0 s0 (setb s b (mkBlk (btask (getb s b)) false (btimer (getb s b)))).
Proof. apply Tf_same; reflexivity. Qed.

(* ------------------------------------------------------------ library calls, frames, user code *)
Lemma Tf_event_set_fold t0 s0 : forall ws s,
  Tf t0 s0 s -> Tf t0 s0 (fold_left (fun s f => if fdone s f then s else fst (fut_finish s f (FResult 1))) ws s).
Proof. intros ws. apply Tf_fold. intros. tgo. Qed.

Lemma Tf_lib_call t0 s0 t op s s' r : lib_call t op s = (s', r) -> Tf t0 s0 s -> Tf t0 s0 s'.
Proof.
  intros E H. destruct op; cbn [lib_call] in E;
    try (top E; fail).
  all: try (repeat case_in E; inversion E; subst; auto; apply Tf_event_set_fold; tgo; fail).
  all: try (repeat case_in E; inversion E; subst; auto; apply Tf_blocks_app; tgo; fail).
  all: try (inversion E; subst; apply Tf_cancel_handle, Tf_setb_exit, H).
Qed.

Lemma Tf_frame_resume t0 s0 t fr inp s s' r : frame_resume t fr inp s = (s', r) -> Tf t0 s0 s -> Tf t0 s0 s'.
Proof.
  intros E H. destruct fr; cbn [frame_resume] in E; try (top E; fail);
    try (unfold interruptor_wrap in E; top E; fail).
Qed.

Lemma Tf_resume_stack t0 s0 t : forall frs inp s s' r,
  resume_stack t frs inp s = (s', r) -> Tf t0 s0 s -> Tf t0 s0 s'.
Proof.
  induction frs as [|fr rest IH]; intros inp s s' r E H; cbn [resume_stack] in E.
  - inversion E; subst; auto.
  - destruct (frame_resume t fr inp s) as [s1 r1] eqn:F.
    pose proof (Tf_frame_resume _ _ _ _ _ _ _ _ F H) as H1.
    destruct r1; [eapply IH; eauto|inversion E; subst; auto].
Qed.

Lemma Tf_new_task t0 s0 s kind p c s' t : new_task s kind p c = (s', t) -> Tf t0 s0 s -> Tf t0 s0 s'.
Proof.
  intros E H. unfold new_task in E.
  destruct (new_future s (Some (length (tasks s)))) as [s1 f] eqn:N.
  pose proof (Tf_new_future_eq _ _ _ _ _ _ N H) as H1. inversion E; subst. apply Tf_call_soon.
  apply Tf_tasks_app. exact H1.
Qed.
Lemma Tf_spawn_task t0 s0 s how c s' t : spawn_task s how c = (s', t) -> Tf t0 s0 s -> Tf t0 s0 s'.
Proof. unfold spawn_task. destruct how; apply Tf_new_task. Qed.

Lemma Tf_exec t0 s0 t : forall c s s' o, exec t c s = (s', o) -> Tf t0 s0 s -> Tf t0 s0 s'.
Proof.
  induction c as [v|e|op k IH|how child IHc k IHk]; intros s s' o E H.
  - inversion E; subst; auto.
  - inversion E; subst; auto.
  - cbn [exec] in E. destruct (lib_call t op s) as [s1 r1] eqn:L.
    pose proof (Tf_lib_call _ _ _ _ _ _ _ L H) as H1.
    destruct r1; [eapply IH; eauto|inversion E; subst; auto].
  - destruct how; cbn [exec] in E;
      try (destruct (spawn_task s _ child) as [s1 t'] eqn:S;
           pose proof (Tf_spawn_task _ _ _ _ _ _ _ S H) as H1).
    + eapply IHk; eauto.
    + eapply IHk; eauto.
    + eapply IHk; eauto.
    + destruct (lib_call t _ s1) as [s2 r2] eqn:L. pose proof (Tf_lib_call _ _ _ _ _ _ _ L H1) as H2.
      destruct r2 as [[v|e]|]; [eapply IHk; eauto|eapply IHk; eauto|inversion E; subst; auto].
    + inversion E; subst; auto.
    + destruct (exec t child s) as [s1 o1] eqn:C. pose proof (IHc _ _ _ C H) as H1.
      destruct o1 as [r1|y frs kc].
      * eapply IHk; [exact E|]. tgo.
      * eapply IHk; [exact E|]. apply Tf_call_soon.
        match goal with |- Tf t0 s0 (?u <| futs := ?a |> <| tasks := ?b |>) => assert (HU : Tf t0 s0 u) end.
        { destruct y; tgo. }
        apply Tf_tasks_app. exact HU.
Qed.


(* ------------------------------------------------------------ other tasks' steps and the loop *)
Lemma Tf_finish_step t0 s0 c s o : c <> t0 -> Tf t0 s0 s -> Tf t0 s0 (finish_step c s o).
Proof. intros N H. unfold finish_step. tgo. Qed.

Lemma Tf_step_task t0 c exc s : c <> t0 -> Tf t0 s (step_task c exc s).
Proof.
  intros N. unfold step_task. destruct (tdone s c); [apply Tf_adderr, Tf_refl|].
  match goal with |- context [sett s c ?x <| current := Some c |>] =>
    set (s1 := sett s c x <| current := Some c |>) end.
  assert (H1 : Tf t0 s s1).
  { unfold s1. match goal with |- Tf _ _ (?u <| current := _ |>) => apply (Tf_same t0 s u); [reflexivity|] end.
    apply Tf_sett; [tf_side|apply Tf_refl]. }
  match goal with |- Tf t0 s (let '(s2, o) := ?p in _) =>
    assert (HP : Tf t0 s (fst p)); [|destruct p as [sx ox]] end.
  { destruct (tcont_ (gett s c)) as [c0|frs k|y frs k| |].
    - destruct (if tmustc (gett s c) then _ else exc); [exact H1|].
      destruct (exec c c0 s1) as [s2 o] eqn:E. cbn [fst]. eapply Tf_exec; [exact E|exact H1].
    - destruct (resume_stack c frs _ s1) as [s2 r] eqn:E.
      pose proof (Tf_resume_stack t0 s c _ _ _ _ _ E H1) as H2.
      destruct r; [|exact H2]. destruct (exec c (k r) s2) as [s3 o] eqn:E3. cbn [fst].
      eapply Tf_exec; eauto.
    - destruct (if tmustc (gett s c) then _ else exc).
      + destruct (resume_stack c frs _ s1) as [s2 r] eqn:E.
        pose proof (Tf_resume_stack t0 s c _ _ _ _ _ E H1) as H2.
        destruct r; [|exact H2]. destruct (exec c (k r) s2) as [s3 o] eqn:E3. cbn [fst].
        eapply Tf_exec; eauto.
      + cbn [fst]. destruct y; [exact H1|apply Tf_setf, H1].
    - exact H1.
    - exact H1. }
  cbn [fst] in HP. apply (Tf_same t0 s (finish_step c sx ox)); [reflexivity|].
  apply (Tf_finish_step t0 s c sx ox N HP).
Qed.

Lemma Tf_wakeup t0 c f s : c <> t0 -> Tf t0 s (wakeup c f s).
Proof.
  intros N. unfold wakeup. destruct (fstate_ (getf s f)); try (apply Tf_step_task; exact N).
  destruct (fut_result s f) as [s1 r] eqn:E.
  eapply Tf_trans; [eapply Tf_fut_result; [exact E|apply Tf_refl]|apply Tf_step_task; exact N].
Qed.

Lemma Tf_run_callback t0 cb s : task_of_cb cb <> Some t0 -> Tf t0 s (run_callback cb s).
Proof.
  intros N. destruct cb as [t e|t f|t p|n|f v|b| |t]; cbn [run_callback].
  - apply Tf_step_task. intros ->. apply N. reflexivity.
  - apply Tf_wakeup. intros ->. apply N. reflexivity.
  - destruct (task_reinsert s t p) as [s1 r] eqn:E.
    pose proof (Tf_task_reinsert t0 s s t p s1 r E (Tf_refl t0 s)) as H1.
    destruct r; [exact H1|apply Tf_adderr, H1].
  - apply Tf_addlog, Tf_refl.
  - apply Tf_fut_finish_fst, Tf_refl.
  - destruct (new_task s KC None (interruptor_body b)) as [s1 t1] eqn:E. cbn [fst].
    eapply Tf_new_task; [exact E|apply Tf_refl].
  - apply Tf_queue_iterated, Tf_addlog, Tf_refl.
  - destruct (cancel_task s t) as [s1 ok] eqn:E. cbn [fst]. eapply Tf_cancel_task; [exact E|apply Tf_refl].
Qed.

(* an action does not step t: it is not a loop step, or the handle the loop step runs is
   cancelled or is not a step/wake-up handle of t *)
Definition not_stepping (t : nat) (s : st) (a : action) : Prop :=
  match a with
  | AStep => forall h r, rq_popleft (ready s) = Some (h, r) ->
             hcancelled (geth s h) = false -> task_of_handle s h <> Some t
  | _ => True
  end.
Fixpoint not_stepped (t : nat) (s : st) (acts : list action) : Prop :=
  match acts with
  | [] => True
  | a :: l => not_stepping t s a /\ not_stepped t (do_action s a) l
  end.

Lemma Tf_run_one t0 s : not_stepping t0 s AStep -> Tf t0 s (run_one s).
Proof.
  intros N. unfold run_one. destruct (rq_popleft (ready s)) as [[h r]|] eqn:Pp; [|apply Tf_refl].
  change (geth (s <| ready := r |>) h) with (geth s h).
  destruct (hcancelled (geth s h)) eqn:Hc; [apply Tf_ready, Tf_refl|].
  eapply Tf_trans; [apply Tf_ready, Tf_refl|]. apply Tf_run_callback. apply (N h r Pp Hc).
Qed.

Lemma Tf_timers_loop t0 : forall s, Tf t0 s (begin_iteration s).
Proof.
  intros s. unfold begin_iteration. generalize (length (timers s)). intros n.
  assert (D : forall fuel u, Tf t0 u (drop_cancelled fuel u)).
  { induction fuel as [|fuel IH]; intros u; cbn [drop_cancelled]; [apply Tf_refl|].
    destruct (timers u) as [|[w h] tl]; [apply Tf_refl|]. destruct (hcancelled _); [|apply Tf_refl].
    destruct (HeapqModel.heappop _ _ _) as [[x tm]|]; [|apply Tf_refl].
    eapply Tf_trans; [apply Tf_timers, Tf_refl|apply IH]. }
  assert (M : forall fuel u, Tf t0 u (move_due fuel u)).
  { induction fuel as [|fuel IH]; intros u; cbn [move_due]; [apply Tf_refl|].
    destruct (timers u) as [|[w h] tl]; [apply Tf_refl|]. destruct (Qle_bool _ _); [|apply Tf_refl].
    destruct (HeapqModel.heappop _ _ _) as [[[x h'] tm]|]; [|apply Tf_refl].
    eapply Tf_trans; [apply Tf_ready, Tf_timers, Tf_refl|apply IH]. }
  eapply Tf_trans; [apply D|apply M].
Qed.

Theorem Tf_action t0 s a : not_stepping t0 s a -> Tf t0 s (do_action s a).
Proof.
  intros N. destruct a as [| |d|how c|op]; cbn [do_action].
  - apply Tf_run_one. exact N.
  - apply Tf_timers_loop.
  - apply (Tf_same t0 s s); [reflexivity|apply Tf_refl].
  - destruct (spawn_task s how c) as [s1 t] eqn:E. cbn [fst]. eapply Tf_spawn_task; [exact E|apply Tf_refl].
  - destruct (lib_call 0 op s) as [s1 r] eqn:E. cbn [fst]. eapply Tf_lib_call; [exact E|apply Tf_refl].
Qed.

Theorem Tf_actions t0 : forall acts s, not_stepped t0 s acts -> Tf t0 s (fold_left do_action acts s).
Proof.
  induction acts as [|a acts IH]; intros s N; simpl; [apply Tf_refl|].
  destruct N as [N1 N2]. eapply Tf_trans; [apply Tf_action; exact N1|apply IH; exact N2].
Qed.
