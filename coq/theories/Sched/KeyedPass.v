(* C12, fifth pass: [KO] (fixed order on the tables + all live keys current) through the frames of a
   suspended task, user code, Task.__step, the loop and the environment actions, jointly with the
   C13 invariant [Inv] and the second invariant [WI true]. *)
From Coq Require Import QArith Lqa Sorting.Permutation.
From RecordUpdate Require Import RecordUpdate.
From Asynkit Require Import Base.Prelude Queue.PQ Queue.Order Queue.Heap Queue.ListFacts Queue.PQProofs
  Queue.PosPQ Queue.Exec
  Sched.Model Sched.Corr Sched.Tables Sched.QFacts Sched.LockInv Sched.Footprint Sched.LockOps Sched.LockLib
  Sched.LockProofs Sched.LockStatic Sched.LockThms Sched.InheritEprio Sched.InheritHandover Sched.InheritKeys
  Sched.InheritFalls Sched.WaitInv Sched.WaitOps Sched.WaitLib Sched.WaitProofs.
From Asynkit Require Import Sched.OrderInv Sched.OrderPass Sched.OrderThms Sched.InheritLocal
  Sched.InheritChain Sched.InheritArrive Sched.InheritFinish Sched.KeyedInv Sched.KeyedLib.
Import RecordSetNotations.
Open Scope nat_scope.

(* the running task, with no acquire frame in hand, is not queued anywhere *)
Lemma norows_noacq s t P :
  WI true (t, P) s -> tframes s t = [] -> no_acq P -> forall l f, ~ In (f, t) (rows s l).
Proof.
  intros W Hfr Hn l f Hin. destruct (w_row W l f t Hin) as (t' & had & Hh). pose proof Hh as Hh'.
  destruct (w_frame W t' l f had Hh') as (u & Hu & _ & _ & Hne).
  specialize (Hne eq_refl). subst u. pose proof (rows_unique _ _ _ _ (w_nodup W l) Hin Hu) as E.
  subst t'. destruct Hh as [Hh|[_ Hh]]; [rewrite Hfr in Hh; destruct Hh|].
  simpl in Hh. exact (no_acq_in _ _ _ _ Hn Hh).
Qed.

Lemma hr_frames_nil g t s s' : hr g t s s' -> tframes s t = [] -> tframes s' t = [].
Proof. intros H E. destruct (h_self H) as [A|A]; congruence. Qed.

(* ------------------------------------------------------------ resume_stack *)
Lemma resume_noacq_K frs : forall t inp s,
  Inv s -> t < length (tasks s) -> no_acq frs ->
  (forall l f, In (InAcquireA l f) frs -> lkind_ (getl s l) = LPlain) ->
  WI true (t, frs) s -> tframes s t = [] -> resume_ord t frs inp s -> KO s ->
  KO (fst (resume_stack t frs inp s)).
Proof.
  induction frs as [|fr rest IH]; intros t inp s I Ht Hn Hk W Hfr Ho K; cbn [resume_stack resume_ord] in *.
  - exact K.
  - destruct Ho as [Ho1 Ho2].
    assert (Hok : frame_ok s fr).
    { pose proof (Hn fr (or_introl eq_refl)) as Ha. destruct fr; simpl in *; auto; try discriminate.
      apply (Hk l f). now left. }
    pose proof (WI_drop _ _ _ _ _ _ (Hn fr (or_introl eq_refl)) W) as W0.
    pose proof (norows_noacq s t rest W0 Hfr (no_acq_tail fr rest Hn)) as Hnr.
    pose proof (frame_resume_W true t fr inp s rest I Ht Hok W0) as W1.
    pose proof (frame_resume_K t fr inp s rest I Ht Hok W0 Hnr Ho1 K) as K1.
    destruct (frame_resume_ext t fr inp s I Ht Hok) as [E _].
    destruct (frame_resume_xo t fr inp s I Ht Hok Ho1) as [H _].
    pose proof (hr_frames_nil _ _ _ _ H Hfr) as Hfr1.
    destruct (frame_resume t fr inp s) as [s1 r]. cbn [fst snd] in *.
    destruct E as (I1 & Hlen & Hkind & _).
    destruct r as [rep|y frs1]; cbn [push] in *.
    + apply IH; auto; [lia|apply (no_acq_tail fr rest Hn)|].
      intros l f Hin. rewrite Hkind. apply (Hk l f). now right.
    + cbn [fst snd]. exact K1.
Qed.

Theorem resume_stack_K frs t inp s :
  Inv s -> t < length (tasks s) -> pend s frs -> WI true (t, frs) s -> tframes s t = [] ->
  resume_ord t frs inp s -> KO s -> KO (fst (resume_stack t frs inp s)).
Proof.
  intros I Ht (Hs & Ha & Hk) W Hfr Ho K. destruct Hs as [Hn|(l & f & had & rest & -> & Hn)].
  - now apply resume_noacq_K.
  - cbn [resume_stack resume_ord] in *. destruct Ho as [_ Ho].
    destruct (infut_step t f inp s) as (rep & Er & B & Hw & Hfr0).
    assert (Kw : wk s (fst (frame_resume t (InFut f) inp s))).
    { cbn [frame_resume]. destruct inp as [v|e]; [|apply wk_refl]. destruct (fdone s f); [|apply wk_refl].
      pose proof (wk_fut_result s f) as Kw. destruct (fut_result s f) as [s' r]. exact Kw. }
    destruct (frame_resume t (InFut f) inp s) as [s1 r]. cbn [fst snd] in *. subst r.
    pose proof (Inv_benign s s1 B I) as I1.
    assert (Ht1 : t < length (tasks s1)) by (pose proof (benign_tasks s s1 B); lia).
    destruct (Ha l f had (or_intror (or_introl eq_refl))) as [Hf Hnf].
    assert (Hf1 : In f (objs s1 l)) by (now rewrite (benign_objs s s1 l B)).
    assert (Hnf1 : no_frame s1 f) by (intros t0 l0 had0; rewrite Hfr0; apply Hnf).
    pose proof (WI_wk _ _ _ _ _ Kw W) as W1.
    pose proof (WI_drop true _ t (InFut f) _ s1 eq_refl W1) as W1'.
    assert (K1 : KO s1) by (apply (KO_bq s s1 _ I W); auto; now apply wk_wq).
    cbn [frame_resume] in *. destruct Ho as [_ Ho].
    pose proof (acquire_p_finish_W true s1 t l f had rep rest I1 Ht1 Hf1 Hnf1 Hn W1') as W2.
    destruct (lstep_acquire_p_finish s1 t l f had rep I1 Ht1 Hf1 Hnf1 Hw) as (L & _ & _).
    destruct K1 as [O1 Ky1].
    pose proof (keyed_finish s1 t l f had rep rest I1 Ht1 Hf1 Hnf1 Hn Hw W1' O1 Ky1) as K2.
    destruct (acquire_p_finish s1 t l f had rep) as [s2 r2]. cbn [fst snd] in *.
    pose proof (ls_inv L) as I2.
    assert (Ht2 : t < length (tasks s2)) by (rewrite (ls_ntasks L); exact Ht1).
    apply resume_noacq_K; auto.
    + intros l0 f0 Hin. rewrite (ls_kind L), (benign_kind s s1 l0 B). apply (Hk l0 f0). right. now right.
    + rewrite (ls_frames L), Hfr0. exact Hfr.
    + destruct K2 as [A B2]. split; auto.
Qed.

(* ------------------------------------------------------------ the side condition "no set_priority" *)
Fixpoint exec_np (t : nat) (c : coro) (s : st) {struct c} : Prop :=
  match c with
  | Ret _ | Raise _ => True
  | Call op k =>
      op_np op /\
      (let '(s', r) := lib_call t op s in
       match r with LDone rep => exec_np t (k rep) s' | LSusp _ _ => True end)
  | Spawn SEager child k => True
  | Spawn how child k =>
      let '(s, t') := spawn_task s how child in
      match how with
      | SDescend =>
          let '(s, r) := lib_call t (OTaskSwitch t' (Some 1)) s in
          match r with
          | LDone (RExc e) => exec_np t (k (RExc e)) s
          | LDone (RVal _) => exec_np t (k (RVal (Z.of_nat t'))) s
          | LSusp _ _ => True
          end
      | SStart => True
      | _ => exec_np t (k (RVal (Z.of_nat t'))) s
      end
  end.

Definition step_np (t : nat) (exc : option exn) (s : st) : Prop :=
  if tdone s t then True else
  let tk := gett s t in
  let exc := if tmustc tk
             then match exc with
                  | Some e => if is_cancel e then Some e else Some ECancelled
                  | None => Some ECancelled end
             else exc in
  let cont := tcont_ tk in
  let s := sett s t (tk <| tmustc := false |> <| twaiter := None |> <| tcont_ := TRun |>) in
  let s := s <| current := Some t |> in
  let inp := match exc with None => RVal 0 | Some e => RExc e end in
  match cont with
  | TNew c => match exc with Some _ => True | None => exec_np t c s end
  | TSusp frs k =>
      (let '(s, r) := resume_stack t frs inp s in
       match r with LDone rep => exec_np t (k rep) s | LSusp _ _ => True end)
  | TEager y frs k =>
      match exc with
      | None => True
      | Some _ =>
          (let '(s, r) := resume_stack t frs inp s in
           match r with LDone rep => exec_np t (k rep) s | LSusp _ _ => True end)
      end
  | TRun | TFin => True
  end.

Definition wakeup_np (t f : nat) (s : st) : Prop :=
  match fstate_ (getf s f) with
  | FResult _ => step_np t None s
  | FExc e => step_np t (Some e) s
  | FCancelled => let '(s', r) := fut_result s f in
                  step_np t (match r with RExc e => Some e | RVal _ => None end) s'
  | FPending => step_np t (Some EInvalidState) s
  end.

Definition run_callback_np (c : callback) (s : st) : Prop :=
  match c with
  | HStep t e => step_np t e s
  | HWakeup t f => wakeup_np t f s
  | _ => True
  end.

Definition run_one_np (s : st) : Prop :=
  match rq_popleft (ready s) with
  | None => True
  | Some (h, r) =>
      let s := s <| ready := r |> in
      let hd := geth s h in
      if hcancelled hd then True else run_callback_np (hcb hd) s
  end.

Definition action_np (s : st) (a : action) : Prop :=
  match a with
  | AStep => run_one_np s
  | ADo op => op_np op
  | _ => True
  end.

Fixpoint run_np (s : st) (acts : list action) : Prop :=
  match acts with
  | [] => True
  | a :: rest => action_np s a /\ run_np (do_action s a) rest
  end.

(* ------------------------------------------------------------ user code *)
Theorem exec_K c : forall t s,
  Inv s -> t < length (tasks s) -> exec_ok t c s -> exec_ne t c s -> exec_ord t c s -> exec_np t c s ->
  WI true (t, []) s -> tframes s t = [] -> KO s -> KO (fst (exec t c s)).
Proof.
  induction c as [v|e|op k IHk|how child IHc k IHk]; intros t s I Ht Hok Hne Ho Hp W Hfr K.
  - cbn. exact K.
  - cbn. exact K.
  - cbn [exec exec_ok exec_ne exec_ord exec_np] in *. destruct Hok as [Hs Hk].
    destruct Ho as [Ho1 Ho2]. destruct Hp as [Hp1 Hp2].
    destruct (lib_call_ext t op s I Hs (fun _ => Ht)) as [E _].
    pose proof (norows_runner s t W Hfr) as Hnr.
    pose proof (lib_call_W true t op s [] I Hs Ht (fun _ => Hnr) W) as W1.
    pose proof (lib_call_K t op s [] I Hs Ht Hnr W Ho1 Hp1 K) as K1.
    pose proof (kproj_tframes _ _ t (kproj_lib_call t op s)) as F1.
    destruct (lib_call t op s) as [s1 r]. cbn [fst snd] in *. destruct r as [rep|y frs]; cbn [push] in W1.
    + apply IHk; auto; [apply (ext_inv _ _ E)|pose proof (ext_tasks _ _ E); lia|congruence].
    + cbn [fst]. exact K1.
  - assert (Hsp : forall how', how' <> SEager ->
              let s1 := fst (spawn_task s how' child) in
              Inv s1 /\ t < length (tasks s1) /\ WI true (t, []) s1 /\ tframes s1 t = [] /\ KO s1).
    { intros how' _. cbv zeta. pose proof (benign_spawn_task s how' child I) as B.
      pose proof (wk_spawn_task s how' child) as Kw.
      split; [eapply Inv_benign; eauto|]. split; [pose proof (k_ntasks Kw); lia|].
      split; [eapply WI_wk; eauto|]. split; [eapply wk_tframes_nil; eauto|].
      apply (KO_bq s _ _ I W); auto. now apply wk_wq. }
    destruct how.
    + (* SPlain *)
      cbn [exec exec_ok exec_ne exec_ord exec_np] in *.
      destruct (Hsp SPlain ltac:(discriminate)) as (I1 & Ht1 & W1 & F1 & K1).
      destruct (spawn_task s SPlain child) as [s1 t']. cbn [fst] in *. apply IHk; auto.
    + (* SPy *)
      cbn [exec exec_ok exec_ne exec_ord exec_np] in *.
      destruct (Hsp SPy ltac:(discriminate)) as (I1 & Ht1 & W1 & F1 & K1).
      destruct (spawn_task s SPy child) as [s1 t']. cbn [fst] in *. apply IHk; auto.
    + (* SPrio *)
      cbn [exec exec_ok exec_ne exec_ord exec_np] in *.
      destruct (Hsp (SPrio p) ltac:(discriminate)) as (I1 & Ht1 & W1 & F1 & K1).
      destruct (spawn_task s (SPrio p) child) as [s1 t']. cbn [fst] in *. apply IHk; auto.
    + (* SDescend *)
      cbn [exec exec_ok exec_ne exec_ord exec_np] in *.
      destruct (Hsp SDescend ltac:(discriminate)) as (I1 & Ht1 & W1 & F1 & K1).
      destruct (spawn_task s SDescend child) as [s1 t']. cbn [fst] in *.
      destruct (lib_call_ext t (OTaskSwitch t' (Some 1)) s1 I1 Logic.I (fun _ => Ht1)) as [E2 _].
      pose proof (norows_runner s1 t W1 F1) as Hnr.
      pose proof (lib_call_W true t (OTaskSwitch t' (Some 1)) s1 [] I1 Logic.I Ht1 (fun _ => Hnr) W1) as W2.
      pose proof (lib_call_K t (OTaskSwitch t' (Some 1)) s1 [] I1 Logic.I Ht1 Hnr W1 Logic.I Logic.I K1) as K2.
      pose proof (kproj_tframes _ _ t (kproj_lib_call t (OTaskSwitch t' (Some 1)) s1)) as F2.
      destruct (lib_call t (OTaskSwitch t' (Some 1)) s1) as [s2 r]. cbn [fst snd] in *.
      assert (Ht2 : t < length (tasks s2)) by (pose proof (ext_tasks _ _ E2); lia).
      destruct r as [[v|e]|y frs]; cbn [push] in W2.
      * apply IHk; auto; [apply (ext_inv _ _ E2)|congruence].
      * apply IHk; auto; [apply (ext_inv _ _ E2)|congruence].
      * cbn [fst]. exact K2.
    + (* SStart *)
      cbn [exec exec_ok exec_ne exec_ord exec_np] in *.
      destruct (Hsp SStart ltac:(discriminate)) as (I1 & Ht1 & W1 & F1 & K1).
      destruct (spawn_task s SStart child) as [s1 t']. cbn [fst snd] in *. exact K1.
    + (* SEager *) cbn [exec_ne] in Hne. destruct Hne.
Qed.

(* ------------------------------------------------------------ finish_step *)
(* [wq] + every task keeps its held locks *)
Definition wqh (s s' : st) : Prop :=
  wq s s' /\ forall x, x < length (tasks s) -> tholding (gett s' x) = tholding (gett s x).

Lemma wqh_refl s : wqh s s.
Proof. split; [apply wq_refl|auto]. Qed.

Lemma wqh_trans s1 s2 s3 : wqh s1 s2 -> wqh s2 s3 -> wqh s1 s3.
Proof.
  intros [A1 A2] [B1 B2]. split; [eapply wq_trans; eauto|].
  intros x Hx. pose proof (q_ntasks A1). rewrite B2 by lia. now apply A2.
Qed.

Lemma wqh_bw s s' : benign s s' -> wk s s' -> wqh s s'.
Proof. intros B K. split; [now apply wk_wq|]. intros x Hx. now destruct (c_task B x Hx). Qed.

Lemma wqh_sett s t x :
  twaiting x = twaiting (gett s t) -> tprio x = tprio (gett s t) -> tholding x = tholding (gett s t) ->
  wqh s (sett s t x).
Proof.
  intros A B C. split; [now apply wq_sett|]. intros y Hy. rewrite gett_sett.
  destruct (Nat.eqb t y && Nat.ltb t (length (tasks s)))%bool eqn:E; auto.
  apply andb_prop in E as [E _]. apply Nat.eqb_eq in E. now subst y.
Qed.

Lemma wqh_core s s' : locks s' = locks s -> tasks s' = tasks s -> futs s' = futs s -> wqh s s'.
Proof. intros A B C. split; [now apply wq_core|]. intros x _. unfold gett. now rewrite B. Qed.

Lemma KO_wqh s s' R R' :
  Inv s -> WI true R s -> Inv s' -> WI true R' s' -> wqh s s' -> KO s -> KO s'.
Proof. intros I W I' W' [Q H] K. now apply (KO_same s s' R R'). Qed.

Lemma finish_step_wqh t s o :
  Inv s -> t < length (tasks s) -> (forall y frs k, o = OYield y frs k -> pend s frs) ->
  wqh s (finish_step t s o).
Proof.
  intros I Ht P. unfold finish_step.
  pose proof (taskfut_not_lockfut s t I Ht) as Hnl.
  destruct o as [[v|e]|y frs k].
  - set (s1 := sett s t (gett s t <| tcont_ := TFin |>)).
    assert (B1 : benign s s1) by (apply chg_sett; [reflexivity|reflexivity|reflexivity|right; reflexivity]).
    pose proof (Inv_benign _ _ B1 I) as I1.
    apply wqh_trans with (s2 := s1); [apply wqh_sett; reflexivity|].
    destruct (tmustc (gett s t)).
    + set (s2 := sett s1 t (gett s1 t <| tmustc := false |>)).
      assert (B2 : benign s1 s2) by bsett.
      apply wqh_trans with (s2 := s2); [apply wqh_sett; reflexivity|].
      apply wqh_bw; [apply benign_fut_finish; [eapply Inv_benign; eauto|now left]|apply wk_fut_finish].
    + apply wqh_bw; [apply benign_fut_finish; [exact I1|right; exact Hnl]|apply wk_fut_finish].
  - set (s1 := sett s t (gett s t <| tcont_ := TFin |>)).
    assert (B1 : benign s s1) by (apply chg_sett; [reflexivity|reflexivity|reflexivity|right; reflexivity]).
    pose proof (Inv_benign _ _ B1 I) as I1.
    apply wqh_trans with (s2 := s1); [apply wqh_sett; reflexivity|].
    destruct (is_cancel e).
    + set (s2 := setf s1 (tfut (gett s t)) (getf s1 (tfut (gett s t)) <| fcexc := Some e |>)).
      assert (B2 : benign s1 s2) by (apply chg_setf_flag; reflexivity).
      apply wqh_trans with (s2 := s2); [apply wqh_bw; [exact B2|apply wk_setf_flag; reflexivity]|].
      apply wqh_bw; [apply benign_fut_finish; [eapply Inv_benign; eauto|now left]|apply wk_fut_finish].
    + apply wqh_bw; [apply benign_fut_finish; [exact I1|right; exact Hnl]|apply wk_fut_finish].
  - specialize (P y frs k eq_refl).
    set (s1 := sett s t (gett s t <| tcont_ := TSusp frs k |>)).
    assert (I1 : Inv s1) by (apply Inv_store_sett; auto).
    assert (Ht1 : t < length (tasks s1)) by (unfold s1; now rewrite sett_len).
    assert (H1 : wqh s s1) by (apply wqh_sett; reflexivity).
    assert (Hsoon : forall e, wqh s (call_soon_ s1 (HStep t e))).
    { intros e. apply wqh_trans with (s2 := s1); [exact H1|].
      apply wqh_bw; [apply chg_call_soon; now apply cb_ok_step|apply wk_call_soon]. }
    destruct y as [|f]; [apply Hsoon|].
    destruct (fblock (getf s1 f)); [|apply Hsoon].
    destruct (Nat.eqb f (tfut (gett s t))); [apply Hsoon|].
    set (s2 := setf s1 f (getf s1 f <| fblock := false |>)).
    assert (B2 : benign s1 s2) by (apply chg_setf_flag; reflexivity).
    set (s3 := add_done_callback s2 f (CbWakeup t)).
    assert (B3 : benign s2 s3) by (apply chg_add_done_callback; exact Ht1).
    set (s4 := sett s3 t (gett s3 t <| twaiter := Some f |>)).
    assert (B4 : benign s3 s4) by bsett.
    pose proof (benign_trans _ _ _ B2 (benign_trans _ _ _ B3 B4)) as B14.
    assert (H4 : wqh s s4).
    { apply wqh_trans with (s2 := s1); [exact H1|].
      apply wqh_trans with (s2 := s2); [apply wqh_bw; [exact B2|apply wk_setf_flag; reflexivity]|].
      apply wqh_trans with (s2 := s3); [apply wqh_bw; [exact B3|apply wk_add_done_callback]|].
      apply wqh_sett; reflexivity. }
    destruct (tmustc (gett s4 t)); [|exact H4].
    pose proof (Inv_benign _ _ B14 I1) as I4.
    pose proof (benign_cancel_awaitable s4 f I4) as B5. pose proof (wk_cancel_awaitable s4 f) as K5.
    destruct (cancel_awaitable s4 f) as [s5 ok]. cbn [fst] in B5, K5.
    assert (H5 : wqh s s5) by (eapply wqh_trans; [exact H4|now apply wqh_bw]).
    destruct ok; [|exact H5].
    eapply wqh_trans; [exact H5|apply wqh_sett; reflexivity].
Qed.

Theorem finish_step_K t s o :
  Inv s -> t < length (tasks s) -> tframes s t = [] ->
  (forall y frs k, o = OYield y frs k -> pend s frs) ->
  WI true (t, yfr o) s -> KO s -> KO (finish_step t s o).
Proof.
  intros I Ht Hfr P W K.
  apply (KO_wqh s _ (t, yfr o) (t, []) I W); auto.
  - apply (ext_inv s). now apply finish_step_ext.
  - now apply finish_step_W.
  - now apply finish_step_wqh.
Qed.

(* ------------------------------------------------------------ step_task *)
Lemma KO_core s s' : locks s' = locks s -> tasks s' = tasks s -> futs s' = futs s -> KO s -> KO s'.
Proof.
  intros El Et Ef [O Ky]. split; [now apply (OW_tasks s)|].
  apply (keyed_frame s s'); auto.
  - intros x. unfold gett. now rewrite Et.
  - intros l0. unfold getl. now rewrite El.
  - unfold efuel. now rewrite El, Et.
  - intros g Hg. unfold fdone, getf in *. now rewrite Ef.
Qed.

Lemma step_tail_K t s0 s3 o :
  ext s0 s3 -> t < length (tasks s3) -> tframes s3 t = [] ->
  (forall y frs k, o = OYield y frs k -> pend s3 frs) ->
  WI true (t, yfr o) s3 -> KO s3 -> KO ((finish_step t s3 o) <| current := None |>).
Proof.
  intros E Ht Hfr P W K. apply (KO_core (finish_step t s3 o)); try reflexivity.
  apply finish_step_K; auto. apply (ext_inv _ _ E).
Qed.

Lemma resume_then_exec_K t frs inp s0 s k :
  ext s0 s -> t < length (tasks s) -> pend s frs -> tframes s t = [] ->
  (let '(s1, r) := resume_stack t frs inp s in
   match r with LDone rep => exec_ok t (k rep) s1 | LSusp _ _ => True end) ->
  (let '(s1, r) := resume_stack t frs inp s in
   match r with LDone rep => exec_ne t (k rep) s1 | LSusp _ _ => True end) ->
  resume_ord t frs inp s ->
  (let '(s1, r) := resume_stack t frs inp s in
   match r with LDone rep => exec_ord t (k rep) s1 | LSusp _ _ => True end) ->
  (let '(s1, r) := resume_stack t frs inp s in
   match r with LDone rep => exec_np t (k rep) s1 | LSusp _ _ => True end) ->
  WI true (t, frs) s -> KO s ->
  let '(s3, o) := (let '(s1, r) := resume_stack t frs inp s in
                   match r with
                   | LDone rep => exec t (k rep) s1
                   | LSusp y frs' => (s1, OYield y frs' k) end) in
  KO s3.
Proof.
  intros E Ht P Hfr Hok Hne Hor Ho Hp W K.
  destruct (resume_stack_ext frs t inp s (ext_inv _ _ E) Ht P) as [E1 P1].
  pose proof (resume_stack_W true frs t inp s (ext_inv _ _ E) Ht P W) as W1.
  pose proof (resume_stack_K frs t inp s (ext_inv _ _ E) Ht P W Hfr Hor K) as K1.
  pose proof (kproj_tframes _ _ t (kproj_resume_stack frs t inp s)) as F1.
  destruct (resume_stack t frs inp s) as [s1 r]. cbn [fst snd] in *.
  assert (Ht1 : t < length (tasks s1)) by (pose proof (ext_tasks _ _ E1); lia).
  destruct r as [rep|y frs1]; cbn [push] in W1.
  - pose proof (exec_K (k rep) t s1 (ext_inv _ _ E1) Ht1 Hok Hne Ho Hp W1 ltac:(congruence) K1) as K2.
    destruct (exec t (k rep) s1) as [s3 o]. exact K2.
  - exact K1.
Qed.

Theorem step_task_K t exc s :
  Inv s -> t < length (tasks s) -> step_ok t exc s -> step_ne t exc s -> step_ord t exc s ->
  step_np t exc s -> WI true (t, []) s -> KO s -> KO (step_task t exc s).
Proof.
  intros I Ht Hok Hne Ho Hp W K. unfold step_task, step_ok, step_ne, step_ord, step_np in *.
  destruct (tdone s t); [apply (KO_core s); auto|].
  set (exc' := if tmustc (gett s t)
               then match exc with
                    | Some e => if is_cancel e then Some e else Some ECancelled
                    | None => Some ECancelled end
               else exc) in *.
  set (s1 := sett s t (gett s t <| tmustc := false |> <| twaiter := None |> <| tcont_ := TRun |>)) in *.
  set (s2 := s1 <| current := Some t |>) in *.
  assert (B2 : benign s s2).
  { apply benign_trans with (s2 := s1); [|apply chg_core_eq; reflexivity].
    apply chg_sett; [reflexivity|reflexivity|reflexivity|right; reflexivity]. }
  pose proof (ext_benign _ _ I B2) as E2.
  assert (Ht2 : t < length (tasks s2)) by (pose proof (ext_tasks _ _ E2); lia).
  assert (Eg : gett s2 t = gett s t <| tmustc := false |> <| twaiter := None |> <| tcont_ := TRun |>).
  { change (gett s2 t) with (gett s1 t). unfold s1. now apply gett_sett_same. }
  assert (Ego : forall t0, t0 <> t -> gett s2 t0 = gett s t0).
  { intros t0 Hn. change (gett s2 t0) with (gett s1 t0). unfold s1. apply gett_sett_other. auto. }
  assert (Hfr2 : forall t0, tframes s2 t0 = if Nat.eqb t t0 then [] else tframes s t0).
  { intros t0. unfold tframes. change (gett s2 t0) with (gett s1 t0). unfold s1. rewrite gett_sett.
    apply Nat.ltb_lt in Ht. rewrite Ht, andb_true_r. destruct (Nat.eqb t t0); reflexivity. }
  assert (F2 : tframes s2 t = []) by (rewrite Hfr2, Nat.eqb_refl; reflexivity).
  assert (P2 : pend s2 (tframes s t)).
  { split; [apply (iF1 I)|]. split.
    - intros l f had Hin. split; [apply (iF2 I _ _ _ _ Hin)|].
      intros t0 l0 had0 H0. rewrite Hfr2 in H0. destruct (Nat.eqb t t0) eqn:E; [destruct H0|].
      apply Nat.eqb_neq in E. apply E. eapply (iF3 I); eauto.
    - intros l f Hin. apply (iF4 I _ _ _ Hin). }
  assert (W2 : WI true (t, tframes s t) s2).
  { apply (WI_retable true (t, []) (t, tframes s t) s s2); try reflexivity.
    - change (tasks s2) with (tasks s1). unfold s1. rewrite sett_len. lia.
    - intros t0 _. unfold is_prio_task. destruct (Nat.eq_dec t0 t) as [->|Hn]; [rewrite Eg; auto|rewrite Ego; auto].
    - intros t0 H0. rewrite Ego by lia. now rewrite gett_oob.
    - intros t0 l0 f0 had0 [Hh|[E Hh]]; simpl in *.
      + exists t0. split; [|now left]. apply hasfr_nil. rewrite Hfr2 in Hh.
        destruct (Nat.eqb t t0); [destruct Hh|exact Hh].
      + subst t0. exists t. split; [|now left]. apply hasfr_nil. exact Hh.
    - intros t1 l0 f0 had0 Hh. apply hasfr_nil in Hh. exists t1.
      destruct (Nat.eq_dec t1 t) as [->|Hn]; [right; simpl; auto|].
      left. rewrite Hfr2. apply Nat.eqb_neq in Hn. rewrite Nat.eqb_sym in Hn. now rewrite Hn.
    - intros t0 fr c _ [Hh|[E Hh]]; simpl in *.
      + exists t0. apply hasfr_nil. rewrite Hfr2 in Hh. destruct (Nat.eqb t t0); [destruct Hh|exact Hh].
      + exists t. apply hasfr_nil. exact Hh.
    - intros _. exact Ht2.
    - intros En t0. destruct (Nat.eq_dec t0 t) as [->|Hn]; [now rewrite Eg|].
      rewrite Ego by auto. apply (w_necont W En).
    - exact W. }
  assert (K2 : KO s2).
  { apply (KO_bq s s2 _ I W); auto.
    apply wq_trans with (s2 := s1); [apply wq_sett; reflexivity|apply wq_core; reflexivity]. }
  unfold tframes in P2, W2.
  destruct (tcont_ (gett s t)) as [c|frs k|y frs k| |] eqn:Ec; cbn [frames_of] in P2, W2.
  - (* TNew *)
    destruct exc' as [e|].
    + apply (step_tail_K t s); auto. intros; discriminate.
    + destruct (exec_ext c t s2 (ext_inv _ _ E2) Ht2 Hok) as [E3 P3].
      destruct (exec_W true c t s2 (ext_inv _ _ E2) Ht2 Hok (fun _ => Hne) W2 F2) as [W3 F3].
      pose proof (exec_K c t s2 (ext_inv _ _ E2) Ht2 Hok Hne Ho Hp W2 F2 K2) as K3.
      destruct (exec t c s2) as [s3 o]. cbn [fst snd] in *.
      apply (step_tail_K t s); auto; [eapply ext_trans; eauto|pose proof (ext_tasks _ _ E3); lia].
  - (* TSusp *)
    destruct Ho as [Hor Ho].
    pose proof (resume_then_exec t frs (match exc' with None => RVal 0 | Some e => RExc e end) s s2 k E2 Ht2 P2 Hok) as H.
    pose proof (resume_then_exec_W true t frs (match exc' with None => RVal 0 | Some e => RExc e end) s s2 k E2 Ht2 P2 F2 Hok (fun _ => Hne) W2) as HW.
    pose proof (resume_then_exec_K t frs (match exc' with None => RVal 0 | Some e => RExc e end) s s2 k E2 Ht2 P2 F2 Hok Hne Hor Ho Hp W2 K2) as HK.
    destruct (let '(s1, r) := resume_stack t frs _ s2 in _) as [s3 o].
    destruct H as (E3 & Ht3 & P3). destruct HW as [W3 F3]. apply (step_tail_K t s); auto.
  - (* TEager *)
    pose proof (w_necont W eq_refl t) as Hn. rewrite Ec in Hn. discriminate.
  - (* TRun *) apply (step_tail_K t s); auto. intros; discriminate.
  - (* TFin *) apply (step_tail_K t s); auto. intros; discriminate.
Qed.

(* ------------------------------------------------------------ the loop *)
Theorem wakeup_K t f s :
  Inv s -> t < length (tasks s) -> wakeup_ok t f s -> wakeup_ne t f s -> wakeup_ord t f s ->
  wakeup_np t f s -> WI true (t, []) s -> KO s -> KO (wakeup t f s).
Proof.
  intros I Ht Hok Hne Ho Hp W K. unfold wakeup, wakeup_ok, wakeup_ne, wakeup_ord, wakeup_np in *.
  destruct (fstate_ (getf s f)).
  - now apply step_task_K.
  - now apply step_task_K.
  - now apply step_task_K.
  - pose proof (chg_fut_result (notlf s) s f) as B. pose proof (wk_fut_result s f) as Kw.
    destruct (fut_result s f) as [s' r]. cbn [fst] in *.
    apply step_task_K; auto.
    + eapply Inv_benign; eauto.
    + pose proof (benign_tasks _ _ B). lia.
    + eapply WI_wk; eauto.
    + apply (KO_bq s s' _ I W); auto. now apply wk_wq.
Qed.

Theorem run_callback_K c s :
  Inv s -> In c (hcbs s) -> run_callback_ok c s -> run_callback_ne c s -> run_callback_ord c s ->
  run_callback_np c s -> WInv true s -> KO s -> KO (run_callback c s).
Proof.
  intros I Hin Hok Hne Ho Hp W K. pose proof (iE1 I _ Hin) as Hc. unfold WInv in *.
  destruct c; cbn [run_callback run_callback_ok run_callback_ne run_callback_ord run_callback_np cb_task_ok] in *.
  - apply step_task_K; auto. now apply (WI_runner true _ 0 t).
  - apply wakeup_K; auto. now apply (WI_runner true _ 0 t).
  - pose proof (benign_task_reinsert s t p) as B. pose proof (wk_task_reinsert s t p) as Kw.
    destruct (task_reinsert s t p) as [s' r]. cbn [fst] in *.
    assert (K' : KO s') by (apply (KO_bq s s' _ I W); auto; now apply wk_wq).
    destruct r; [exact K'|]. apply (KO_core s'); auto.
  - apply (KO_core s); auto.
  - apply (KO_bq s _ _ I W); auto; [|apply wk_wq, wk_fut_finish].
    apply benign_fut_finish; auto. right.
    intros Hl. apply (iD2 I _ Hl). eapply foreign_timer; eauto.
  - apply (KO_bq s _ _ I W); auto; [now apply benign_new_task|apply wk_wq, wk_new_task].
  - apply (KO_core s); auto; unfold queue_iterated;
      destruct (ready (addlog s (query_code s))); reflexivity.
  - apply (KO_bq s _ _ I W); auto; [now apply benign_cancel_task|apply wk_wq, wk_cancel_task].
Qed.

Theorem run_one_K s :
  Inv s -> run_one_ok s -> run_one_ne s -> run_one_ord s -> run_one_np s -> WInv true s -> KO s ->
  KO (run_one s).
Proof.
  intros I Hok Hne Ho Hp W K. unfold run_one, run_one_ok, run_one_ne, run_one_ord, run_one_np in *.
  destruct (rq_popleft (ready s)) as [[h r]|]; [|exact K].
  set (s1 := s <| ready := r |>) in *.
  assert (B1 : benign s s1) by (apply chg_core_eq; reflexivity).
  assert (W1 : WInv true s1) by (apply (WI_wk _ _ _ s); [apply wk_core; reflexivity|exact W]).
  assert (K1 : KO s1) by (apply (KO_core s); auto).
  destruct (hcancelled (geth s1 h)) eqn:Ec; [exact K1|].
  apply run_callback_K; auto.
  - eapply Inv_benign; eauto.
  - change (hcbs s1) with (hcbs s). change (geth s1 h) with (geth s h) in *.
    destruct (Nat.lt_ge_cases h (length (handles s))) as [Hh|Hh].
    + unfold hcbs, geth. apply in_map. now apply nth_In.
    + unfold geth in Ec. rewrite nth_overflow in Ec by auto. discriminate.
Qed.

Theorem do_action_K s a :
  Inv s -> action_ok s a -> action_ne s a -> action_ord s a -> action_np s a -> WInv true s -> KO s ->
  KO (do_action s a).
Proof.
  intros I Hok Hne Ho Hp W K. destruct a; cbn [do_action action_ok action_ne action_ord action_np] in *.
  - now apply run_one_K.
  - apply (KO_bq s _ _ I W); auto; [apply benign_begin_iteration|apply wk_wq, wk_begin_iteration].
  - apply (KO_core s); auto.
  - apply (KO_bq s _ _ I W); auto; [now apply benign_spawn_task|apply wk_wq, wk_spawn_task].
  - destruct Hok as [Hs Hn].
    destruct (touches_own op) eqn:Eto.
    + (* release / wait from outside the loop: task 0 is not queued (run_ne) *)
      pose proof (Hne eq_refl) as Hnr.
      assert (Hn' : needs_task op = true -> 0 < length (tasks s)) by (intros H; congruence).
      assert (Ho' : op_ord 0 op s) by (destruct op; try exact Logic.I; discriminate).
      destruct (lib_call_xo 0 op s I Hs Hn' Ho') as [H _]. rewrite Hn in H.
      destruct (lib_call_core true 0 op s (0, []) I Hs Hn (fun _ _ => Hnr) W) as [W' _].
      destruct (lib_call_ext 0 op s I Hs Hn') as [E' _]. apply ext_inv in E'.
      apply (KO_run s _ (0, []) (0, []) I W E' W' (lib_call_wq 0 op s Hn Hp) K 0); auto.
      intros x Hx Hne0. now destruct (h_oth H x Hx Hne0).
    + (* any other call keeps everybody's held locks *)
      apply (KO_bq s _ (0, []) I W); auto; [now apply lib_call_benign|now apply lib_call_wq].
Qed.

(* ------------------------------------------------------------ runs *)
Lemma init_locks_empty (lks : list lkind) : forall l,
  arr (lpq (nth l (map (fun k => mkLock k false None pq_empty [] []) lks) dlock)) = [].
Proof. induction lks as [|k lks IH]; intros [|l]; simpl; auto. Qed.

Lemma KO_init p fa dr lks cds nev : KO (init_st p fa dr lks cds nev).
Proof.
  split.
  - intros x l l0 Hp. unfold is_prio_task in Hp. rewrite gett_oob in Hp by (cbn; lia). discriminate.
  - intros l e He. exfalso. unfold getl, init_st in He. cbn [locks] in He.
    rewrite init_locks_empty in He. exact He.
Qed.

Theorem run_K acts : forall s,
  Inv s -> WInv true s -> KO s -> run_ok s acts -> run_ne s acts -> run_ord s acts -> run_np s acts ->
  KO (fold_left do_action acts s).
Proof.
  induction acts as [|a acts IH]; intros s I W K Hok Hne Ho Hp; simpl; [auto|].
  destruct Hok as [Ha Hr]. destruct Hne as [Hna Hnr]. destruct Ho as [Hoa Hor]. destruct Hp as [Hpa Hpr].
  apply IH; auto.
  - apply (ext_inv _ _ (do_action_ext s a I Ha)).
  - apply do_action_W; auto.
  - now apply do_action_K.
Qed.

(* reachable by a run on which locks are taken in increasing order, nothing is started eagerly and
   set_priority is never called *)
Definition reachable_kd (s : st) : Prop :=
  exists p fa dr lks cds nev acts,
    run_ok (init_st p fa dr lks cds nev) acts /\ run_ne (init_st p fa dr lks cds nev) acts /\
    run_ord (init_st p fa dr lks cds nev) acts /\ run_np (init_st p fa dr lks cds nev) acts /\
    s = fold_left do_action acts (init_st p fa dr lks cds nev).

Lemma reachable_kd_ord s : reachable_kd s -> reachable_ord s.
Proof.
  intros (p & fa & dr & lks & cds & nev & acts & A & B & C & _ & E).
  exists p, fa, dr, lks, cds, nev, acts. auto.
Qed.

Theorem keyed_reachable s : reachable_kd s -> forall l, keyed s l.
Proof.
  intros (p & fa & dr & lks & cds & nev & acts & A & B & C & D & ->).
  apply (run_K acts); auto; [apply Inv_init|apply WInv_init|apply KO_init].
Qed.
