#!/bin/sh
# regenerate _CoqProject from the files on disk (full .vo build, no -vos)
cd "$(dirname "$0")"
{ echo "-Q theories Asynkit"; echo "-arg -w -arg -notation-overridden,-deprecated-hint-without-locality,-deprecated-instance-without-locality"; find theories -name '*.v' | sort; } > _CoqProject
coq_makefile -f _CoqProject -o Makefile >/dev/null
