#!/bin/sh
# Build (full .vo, never -vos) the given targets, or everything when none is given.
#   coq/mk.sh                       # whole development
#   coq/mk.sh theories/Props/C17.vo # one target and what it depends on
# Only the regeneration of _CoqProject/Makefile is serialised; builds run concurrently.
cd "$(dirname "$0")"
flock .build.lock ./gen_coqproject.sh || exit 2
if [ $# -eq 0 ]; then exec timeout 3000 make -j3; else exec timeout 1500 make -j3 "$@"; fi
