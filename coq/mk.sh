#!/bin/sh
# Build (full .vo, never -vos) the given targets, or everything when none is given.
# Serialised with a lock so that concurrent checks do not trample each other.
#   coq/mk.sh                       # whole development
#   coq/mk.sh theories/Props/C17.vo # one target and what it depends on
cd "$(dirname "$0")"
exec flock .build.lock sh -c '
  ./gen_coqproject.sh || exit 2
  if [ $# -eq 0 ]; then exec timeout 3000 make -j4; else exec timeout 3000 make -j4 "$@"; fi' mk "$@"
