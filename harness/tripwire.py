"""Source tripwire (DESIGN 2.6): hashes of the normalised AST of every function/class under
/repo/src/asynkit.  A changed hash never raises an alarm by itself (a harmless rewrite must
stay quiet); it only buys scrutiny: the quick tier then also runs a second, differently seeded
pass of the generators."""
from __future__ import annotations

import ast
import hashlib
import json
import os

HERE = os.path.dirname(os.path.abspath(__file__))
RECORD = os.path.join(os.path.dirname(HERE), "tripwire.json")


def src_root():
    for p in os.environ.get("PYTHONPATH", "").split(":"):
        if p and os.path.isdir(os.path.join(p, "asynkit")):
            return os.path.join(p, "asynkit")
    return "/repo/src/asynkit"


def hashes(root=None):
    root = root or src_root()
    out = {}
    for d, _, files in os.walk(root):
        for f in sorted(files):
            if not f.endswith(".py"):
                continue
            path = os.path.join(d, f)
            rel = os.path.relpath(path, root)
            try:
                tree = ast.parse(open(path).read())
            except SyntaxError:
                out[rel] = "syntax-error"
                continue
            for node in ast.walk(tree):
                if isinstance(node, (ast.FunctionDef, ast.AsyncFunctionDef, ast.ClassDef)):
                    # docstrings and comments do not count
                    body = [n for n in node.body if not (isinstance(n, ast.Expr) and isinstance(getattr(n, "value", None), ast.Constant)
                                                         and isinstance(n.value.value, str))]
                    dump = "".join(ast.dump(n, annotate_fields=False, include_attributes=False) for n in body)
                    out[f"{rel}:{node.name}:{node.lineno if False else ''}" + str(sum(1 for k in out if k.startswith(f'{rel}:{node.name}:')))] = \
                        hashlib.sha1(dump.encode()).hexdigest()[:16]
    return out


def changed():
    """names of functions/classes whose AST differs from the recorded one (empty when nothing is recorded)"""
    if not os.path.exists(RECORD):
        return []
    rec = json.load(open(RECORD))
    cur = hashes()
    return sorted(k for k in set(rec) | set(cur) if rec.get(k) != cur.get(k))


if __name__ == "__main__":
    json.dump(hashes("/repo/src/asynkit"), open(RECORD, "w"), indent=0, sort_keys=True)
    print("recorded", len(json.load(open(RECORD))), "hashes")
