"""Random / enumerated scheduler cases (shared by the scheduler-family properties).

cfg keys (all optional):
  loops: list of loop kinds              nworkers: (lo, hi)
  kinds: list of spawn kinds for workers locks / conds / events: tables
  ops: dict op-name -> weight (worker statements)
  env: dict action-name -> weight (environment actions between steps)
  nacts: (lo, hi) number of environment actions after the spawns
  nfuts: number of shared futures created up front
  depth: max nesting of try blocks,  stmts: (lo, hi) statements per block
"""
from __future__ import annotations

import random

PRIOS = ([0, 1], [1, 1], [-1, 1], [5, 1], [-5, 1], [3, 1], [1, 2])
EXCS = (["interrupt", 1], ["interrupt", 2], ["cancelled"], ["user", 1], ["base", 1])
CANCEL_EXCS = (["interrupt", 1], ["interrupt", 2], ["cancelled"])


def pick(rng, weights: dict):
    items = [(k, w) for k, w in weights.items() if w > 0]
    tot = sum(w for _, w in items)
    r = rng.random() * tot
    for k, w in items:
        r -= w
        if r <= 0:
            return k
    return items[-1][0]


class Gen:
    def __init__(self, rng: random.Random, cfg: dict):
        self.rng = rng
        self.cfg = cfg
        self.lognum = 0
        self.nworkers = 0
        self.kinds = []          # spawn kind of worker i
        self.cur = "plain"       # kind of the task whose script is being generated
        self.idx = 0             # index of the worker whose script is being generated

    def py_targets(self):
        return [i for i, k in enumerate(self.kinds) if k == "py"]

    def log(self):
        self.lognum += 1
        return ["log", self.lognum]

    def stmt(self, depth, held):
        """returns a list of statements (as nested script builders)"""
        rng, cfg = self.rng, self.cfg
        nl, nc, ne, nf = len(cfg.get("locks", [])), len(cfg.get("conds", [])), cfg.get("events", 0), cfg.get("nfuts", 0)
        k = pick(rng, cfg["ops"])
        if k == "log":
            return [("do", self.log())]
        if k == "sleep0":
            return [("do", ["sleep0"])]
        if k == "sleep":
            return [("do", ["sleep", rng.choice([[1, 1], [2, 1], [3, 1], [1, 2]])])]
        if k == "eventwait" and ne:
            return [("do", ["eventwait", rng.randrange(ne)])]
        if k == "eventset" and ne:
            return [("do", ["eventset", rng.randrange(ne)])]
        if k == "awaitfut" and nf:
            return [("do", ["awaitfut", rng.randrange(nf)])]
        if k == "setresult" and nf:
            return [("do", ["setresult", rng.randrange(nf), rng.randrange(5)])]
        if k == "awaittask" and self.idx > 0:
            # only lower-numbered workers: no cycles in the awaits-graph
            return [("do", ["awaittask", rng.randrange(self.idx)])]
        if k == "cancel" and self.nworkers:
            return [("do", ["cancel", rng.randrange(self.nworkers)])]
        if k == "throw" and self.py_targets():
            return [("do", ["throw", rng.choice(self.py_targets()), list(rng.choice(cfg.get("excs", EXCS)))])]
        if k == "interrupt" and self.py_targets():
            return [("do", ["interrupt", rng.choice(self.py_targets()), list(rng.choice(cfg.get("excs", EXCS)))])]
        free = [l for l in range(nl) if not held or l > max(held)]   # fixed lock order: no cycles
        if k == "section" and free and depth > 0:
            l = rng.choice(free)
            body = self.block(depth - 1, held + [l])
            # acquire; try: body finally: release
            return [("do", ["acquire", l]), ("try", body, "never", [], [("do", ["release", l])])]
        if k == "acquire" and free and not held:
            # unbracketed acquire followed (later, maybe) by a release: only at top level
            l = rng.choice(free)
            return [("do", ["acquire", l]), ("do", ["sleep0"]), ("do", ["release", l])]
        if k == "release" and nl:
            return [("do", ["release", rng.randrange(nl)])]
        okc = [c for c in range(nc) if cfg["conds"][c][1] in free]
        if k == "condwait" and okc and depth > 0:
            c = rng.choice(okc)
            l = cfg["conds"][c][1]
            inner = [("do", self.log()), ("do", ["condwait", c]), ("do", self.log())]
            if rng.random() < 0.4:
                inner.append(("do", ["sleep0"]))     # hold the lock across an await
            return [("do", ["acquire", l]), ("try", inner, "never", [], [("do", ["release", l])])]
        if k == "notify" and okc and depth > 0:
            c = rng.choice(okc)
            l = cfg["conds"][c][1]
            n = rng.choice([1, 1, 2, 3])
            inner = [("do", ["notify", c, n] if rng.random() < 0.8 else ["notifyall", c])]
            if rng.random() < 0.5:
                inner.append(("do", ["sleep0"]))
            return [("do", ["acquire", l]), ("try", inner, "never", [], [("do", ["release", l])])]
        if k == "try" and depth > 0:
            body = self.block(depth - 1, held)
            catch = rng.choice(cfg.get("catches", ["cancel", "cancel", "base", "exception", "never"]))
            handler = [("do", self.log())]
            if rng.random() < 0.5:
                handler.append(("logexc",))
            if rng.random() < 0.4:
                handler.append(("do", ["sleep0"]))
                handler.append(("do", self.log()))
            if rng.random() < 0.5:
                handler.append(("reraise",))
            fin = [("do", self.log())] if rng.random() < 0.5 else []
            return [("try", body, catch, handler if catch != "never" else [], fin)]
        if k == "timeout" and depth > 0 and self.cur == "py":
            d = rng.choice(cfg.get("deadlines", [None, [-1, 1], [0, 1], [1, 1], [2, 1], [3, 1]]))
            return [("timeout", d, self.block(depth - 1, held))]
        if k == "sleepinsert":
            return [("do", ["sleepinsert", rng.randrange(3)])]
        if k == "switch" and self.nworkers:
            return [("do", ["switch", rng.randrange(self.nworkers), rng.choice([None, 0, 1, 2])])]
        if k == "callsoon":
            return [("do", ["callsoon", 100 + rng.randrange(50)])]
        if k == "callpos":
            return [("do", ["callpos", rng.randrange(3), 100 + rng.randrange(50)])]
        if k == "setprio" and self.cur == "prio":
            return [("do", ["setprio", list(rng.choice(PRIOS))])]
        if k == "query":
            return [("do", ["query"] if rng.random() < 0.6 else ["callsoonquery"])]
        if k == "raise":
            return [("raise", list(rng.choice([["user", 1], ["base", 1]])))]
        if k == "eager" and depth > 0:
            saved = self.cur
            n = getattr(self, "nspawned", 0)
            self.cur = "plain"
            self.nspawned = 0
            try:
                child = self.block(depth - 1, [])
            finally:
                self.cur = saved
                self.nspawned = n
            after = [("do", ["cancelaw", 1000 + n])] if rng.random() < 0.35 else []
            if rng.random() < 0.7:
                after.append(("try", [("do", ["awaitfut", 1000 + n])], "base", [("logexc",)], []))
            self.nspawned = n + 1
            return [("spawn", ["eager"], child)] + after
        if k == "spawn" and depth > 0:
            how = list(rng.choice(cfg.get("spawn_kinds", [["plain"], ["py"], ["descend"], ["start"]])))
            saved = self.cur
            self.cur = how[0] if how[0] in ("py", "prio") else "plain"
            savedn = getattr(self, "nspawned", 0)
            self.nspawned = 0
            try:
                child = self.block(depth - 1, [])
            finally:
                self.cur = saved
                self.nspawned = savedn + 1
            return [("spawn", how, child)]
        return [("do", self.log())]

    def block(self, depth, held):
        lo, hi = self.cfg.get("stmts", (1, 4))
        out = []
        for _ in range(self.rng.randint(lo, hi)):
            out.extend(self.stmt(depth, held))
        return out

    def worker(self, kind="plain"):
        self.cur = kind
        self.nspawned = 0
        return build([("do", self.log())] + self.block(self.cfg.get("depth", 2), []))


def build(stmts, rest=None):
    """list of statement builders -> nested script"""
    s = rest if rest is not None else ["end"]
    for st in reversed(stmts):
        k = st[0]
        if k == "do":
            s = ["do", st[1], s]
        elif k == "try":
            s = ["try", build(st[1]), st[2], build(st[3]), build(st[4]), s]
        elif k == "timeout":
            s = ["timeout", st[1], build(st[2]), s]
        elif k == "spawn":
            s = ["spawn", st[1], build(st[2]), s]
        elif k == "raise":
            s = ["raise", st[1]]
        elif k == "reraise":
            s = ["reraise"]
        elif k == "logexc":
            s = ["logexc", s]
        elif k == "ret":
            s = ["ret", st[1]]
    return s


def gen_case(rng: random.Random, cfg: dict) -> dict:
    g = Gen(rng, cfg)
    loop = rng.choice(cfg.get("loops", ["stock", "sched", "prio"]))
    nw = rng.randint(*cfg.get("nworkers", (2, 4)))
    g.nworkers = nw
    acts = [["do", ["newfut"]] for _ in range(cfg.get("nfuts", 0))]
    kinds = cfg.get("kinds", [["plain"], ["py"], ["prio", [0, 1]]])
    hows = []
    for _ in range(nw):
        how = list(rng.choice(kinds))
        if how[0] == "prio" and cfg.get("random_prio", True):
            how = ["prio", list(rng.choice(PRIOS))]
        hows.append(how)
    g.kinds = [h[0] for h in hows]
    for i, how in enumerate(hows):
        g.idx = i
        acts.append(["spawn", how, g.worker(how[0])])
    env = cfg.get("env", {"step": 10})
    ne, nf = cfg.get("events", 0), cfg.get("nfuts", 0)
    for _ in range(rng.randint(*cfg.get("nacts", (5, 25)))):
        k = pick(rng, env)
        if k == "step":
            acts.append(["step"])
        elif k == "begin":
            acts.append(["begin"])
        elif k == "advance":
            acts.append(["advance", rng.choice([[1, 1], [1, 2], [2, 1]])])
            acts.append(["begin"])
        elif k == "cancel":
            acts.append(["do", ["cancel", rng.randrange(nw)]])
        elif k == "throw" and g.py_targets():
            acts.append(["do", ["throw", rng.choice(g.py_targets()), list(rng.choice(cfg.get("excs", EXCS)))]])
        elif k == "eventset" and ne:
            acts.append(["do", ["eventset", rng.randrange(ne)]])
        elif k == "setresult" and nf:
            acts.append(["do", ["setresult", rng.randrange(nf), rng.randrange(5)]])
        elif k == "setexc" and nf:
            acts.append(["do", ["setexc", rng.randrange(nf), list(rng.choice([["user", 2], ["base", 2], ["cancelled"]]))]])
        elif k == "futcancel" and nf:
            acts.append(["do", ["futcancel", rng.randrange(nf)]])
        elif k == "spawn":
            how = list(rng.choice(kinds))
            g.idx = nw
            acts.append(["spawn", how, g.worker(how[0])])
        elif k == "callsoon":
            acts.append(["do", ["callsoon", 200 + rng.randrange(20)]])
        elif k == "query":
            acts.append(["do", ["query"]])
        elif k == "callsoonquery":
            acts.append(["do", ["callsoonquery"]])
        else:
            acts.append(["step"])
    # drain: run what is left so that end states are compared too
    for _ in range(cfg.get("drain", 12)):
        acts.append(["step"])
    case = {"loop": loop, "locks": cfg.get("locks", []), "conds": cfg.get("conds", []),
            "events": cfg.get("events", 0), "acts": acts}
    return case


FULL = {
    "locks": ["prio", "plain"], "conds": [["prio", 0], ["intr", 1]], "events": 2, "nfuts": 2,
    "ops": {"log": 3, "sleep0": 4, "sleep": 1, "eventwait": 2, "eventset": 1, "awaitfut": 1, "setresult": 0.5,
            "awaittask": 1, "cancel": 0.7, "throw": 0.7, "interrupt": 0.7, "section": 3, "condwait": 1.5,
            "notify": 1.5, "try": 2, "timeout": 1, "sleepinsert": 0.5, "switch": 0.5, "callsoon": 0.3,
            "callpos": 0.3, "setprio": 0.3, "query": 0.7, "eager": 0.8, "raise": 0.3, "spawn": 0.7, "acquire": 0.2, "release": 0.2},
    "env": {"step": 12, "advance": 1.5, "cancel": 1, "throw": 1, "eventset": 1, "setresult": 0.7,
            "setexc": 0.3, "futcancel": 0.3, "spawn": 0.3, "callsoon": 0.2},
    "nacts": (8, 40), "nworkers": (2, 4), "depth": 2,
}
