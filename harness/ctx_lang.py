"""C04-local extension of harness/coro_lang.py: bodies whose ContextVar reads and
writes are, in addition to the ordinary log `L`, recorded with the variable's
identity in a second list `A` ([0, x, value read] / [1, x, value written]); and
generators of bodies over {set var, read var, await token, try/except/finally}
with two ContextVars.  The rendered source is otherwise that of coro_lang (so
Coro/Prog.v's `denote` is still its model)."""
from __future__ import annotations

import random

from . import coro_lang as C


class _Render(C._Render):
    def stmts(self, p, ind):
        pad = "    " * ind
        if p[0] == "setvar":
            x, v = int(p[1]), C._pyval(p[2])
            return [pad + f"CV[{x}].set({v}); A.append([1, {x}, enc({v})])"]
        if p[0] == "getvar":
            x = int(p[1])
            return [pad + f"_v = CV[{x}].get(); A.append([0, {x}, enc(_v)]); L.append([1, enc(_v)])"]
        return super().stmts(p, ind)


def render(p) -> str:
    r = _Render()
    r.func(p)
    return "\n".join(r.funcs)


class Body(C.Body):
    def __init__(self, p):
        self.log = []
        self.acc = []
        self.kept = []
        self.ns = {"L": self.log, "A": self.acc, "enc": C.enc, "xc": C.exc_code, "tok": C.tok,
                   "X": C.exc_class, "CV": C.CV, "keep": self._keep}
        exec(compile(render(p), "<ctxprog>", "exec"), self.ns)

    def drain_acc(self):
        out = list(self.acc)
        del self.acc[:]
        return out

    def dispose(self):
        self.ns["A"] = []
        super().dispose()


# ----------------------------------------------------------------------------
# generators
# ----------------------------------------------------------------------------
def number_writes(p, counter=None):
    """every setvar writes its own value (1001, 1002, ...): a read tells which write it saw"""
    counter = counter if counter is not None else [0]
    k = p[0]
    if k == "setvar":
        counter[0] += 1
        return ["setvar", p[1], 1000 + counter[0]]
    if k == "call":
        return ["call", number_writes(p[1], counter)]
    if k in ("seq", "fin"):
        a = number_writes(p[1], counter)
        return [k, a, number_writes(p[2], counter)]
    if k == "try":
        a = number_writes(p[1], counter)
        return ["try", a, p[2], number_writes(p[3], counter)]
    return p


def canon(p):
    return number_writes(C.renumber(p))


def S(*ps):
    """right-nested sequence"""
    ps = list(ps)
    return ps[0] if len(ps) == 1 else ["seq", ps[0], S(*ps[1:])]


SET0, SET1, GET0, GET1, TOK = ["setvar", 0, 0], ["setvar", 1, 0], ["getvar", 0], ["getvar", 1], ["tok", 1]

SEEDS = [canon(p) for p in [
    # cleanup in a finally block reads and writes
    S(SET0, ["fin", TOK, S(GET0, SET0, GET1)]),
    # handler for everything: reads, writes the other variable, awaits again, reads
    S(SET0, ["try", TOK, ["BaseException"], S(GET0, SET1, TOK, GET1, GET0)]),
    # straight line over several segments
    S(GET0, SET0, TOK, GET0, SET1, TOK, GET1, SET0, GET0, ["ret", 5]),
    # swallows GeneratorExit and returns
    ["try", S(SET0, TOK, GET0), ["GeneratorExit"], S(GET0, SET0, ["ret", 6])],
    # awaits inside cleanup (ignored GeneratorExit / throw(tries))
    S(SET1, ["fin", TOK, S(GET1, TOK, SET1, GET1)]),
    # nested call
    S(["call", S(SET0, TOK, GET0, SET1)], GET0, GET1, TOK, GET1),
    # done at the start
    S(GET0, SET0, GET0, ["ret", 5]),
    S(SET1, GET1, ["raise", ["E", 1]]),
    # E1 handler re-raising after a write
    S(SET0, ["try", S(TOK, TOK), ["E1"], S(GET0, SET0, ["reraise"])]),
    # reads only: must see the supplied context's initial values
    S(GET0, GET1, ["fin", TOK, S(GET0, GET1)]),
]]

LEAVES = [TOK, SET0, GET0]


def enum_small(n):
    """all bodies of exactly n nodes over {await, set var 0, read var 0} and three handler sets"""
    return [canon(p) for p in C.enum_progs(n, leaves=LEAVES,
                                           cls_sets=[["E1"], ["GeneratorExit"], ["BaseException"]])]


def random_prog(rng: random.Random, size: int, in_handler=False, depth=0):
    if size <= 1:
        r = rng.random()
        if r < 0.30:
            return ["tok", 1]
        if r < 0.55:
            return ["setvar", rng.randrange(2), 0]
        if r < 0.82:
            return ["getvar", rng.randrange(2)]
        if r < 0.87:
            return ["ret", rng.choice([None, 5])]
        if r < 0.93:
            return ["raise", rng.choice(C.RAISABLE)]
        if in_handler:
            return ["reraise"]
        return ["log", 1]
    r = rng.random()
    rest = size - 1
    k = rng.randint(1, max(1, rest - 1))
    if r < 0.42:
        return ["seq", random_prog(rng, k, in_handler, depth), random_prog(rng, rest - k, in_handler, depth)]
    if r < 0.68:
        cls = rng.sample(C.CLS_ALL, rng.choice([1, 1, 2]))
        return ["try", random_prog(rng, k, in_handler, depth), cls, random_prog(rng, rest - k, True, depth)]
    if r < 0.88:
        return ["fin", random_prog(rng, k, in_handler, depth), random_prog(rng, rest - k, in_handler, depth)]
    if depth < 2:
        return ["call", random_prog(rng, rest, False, depth + 1)]
    return ["seq", random_prog(rng, k, in_handler, depth), random_prog(rng, rest - k, in_handler, depth)]
