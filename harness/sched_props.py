"""Shared pieces of the scheduler-family property plugins: stream factory and
decoding helpers for the observation produced by sched_lang.Sim.observe()."""
from __future__ import annotations

import itertools
import random

from . import sched_gen as G
from . import sched_lang as SL
from .framework import Stream

READY, FUTS, TASKS, LOCKS, CONDS, EVENTS, TIMERS, NOW, LOG, ERRS = range(10)
IMPORTS = ["Sched.Model", "Sched.Corr"]


def shrink_acts(case):
    acts = case["acts"]
    for i in range(len(acts) - 1, -1, -1):
        if acts[i][0] != "spawn" and not (acts[i][0] == "do" and acts[i][1][0] == "newfut"):
            c = dict(case)
            c["acts"] = acts[:i] + acts[i + 1:]
            yield c


def nontrivial(case, ob):
    kinds = {a[0] if a[0] != "do" else a[1][0] for a in case["acts"]}
    return len(case["acts"]) >= 4 and len(kinds) >= 3


def describe(case):
    return {"loop": case.get("loop"), "locks": case.get("locks"), "n_actions": len(case["acts"]),
            "actions_head": case["acts"][:6]}


def make_stream(name, gen, oracle, corr_name="scheduler model (Sched/Model.v)"):
    return Stream(name=name, imports=IMPORTS, run="sched_run", input_type="sinput", gen=gen,
                  impl=SL.impl_sched, to_coq=SL.coq_case, oracle=oracle, nontrivial=nontrivial,
                  shrink=shrink_acts, describe=describe, corr_name=corr_name)


def ok_obs(case, ob):
    return isinstance(ob, list) and len(ob) == len(case["acts"]) and (not ob or isinstance(ob[0], list))


# ---- decoding ---------------------------------------------------------------
def ready_handles(state):
    """[(hid, cancelled, task or -1)] in run order"""
    return [tuple(h) for h in state[READY][1]]


def live_ready_tasks(state):
    return [t for _, c, t in ready_handles(state) if not c and t >= 0]


def fut_state(state, f):
    return state[FUTS][f][0][0]       # 0 pending 1 result 2 exception 3 cancelled


def task_done(state, t):
    return bool(state[TASKS][t][0])


def task_waiter(state, t):
    return state[TASKS][t][1]


def task_exc(state, t, fid_of_task):
    f = state[FUTS][fid_of_task[t]][0]
    return f[1] if f[0] == 2 else None


def enum_env(alphabet, depth):
    for n in range(depth + 1):
        yield from itertools.product(alphabet, repeat=n)
