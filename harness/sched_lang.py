"""Scripts for the scheduler correspondence (mirror of coq/theories/Sched/Corr.v).

A case is {"loop": "stock"|"sched"|"prio", "locks": ["prio"|"plain"...],
"conds": [["prio"|"intr", lock_index]...], "events": n, "acts": [action...]}.
Actions: ["step"], ["begin"], ["advance", q], ["spawn", how, script], ["do", op].
`Sim` executes a case on a real event loop (steploop.World) with real asynkit
objects, one action at a time, and returns the canonical observation of the
complete scheduler state after every action."""
from __future__ import annotations

import asyncio
from fractions import Fraction

from . import coqlit as L
from .steploop import World


def fr(x):
    return Fraction(x[0], x[1]) if isinstance(x, (list, tuple)) else Fraction(x)


# ----------------------------------------------------------------------------
# exceptions
# ----------------------------------------------------------------------------
class UserExc(Exception):
    pass


class BaseExc(BaseException):
    pass


RT_MESSAGES = [
    ("await wasn't used with future", 1),
    ("cannot interrupt task which is done", 2),
    ("cannot interrupt a cancelled task", 3),
    ("cannot interrupt self", 4),
    ("Lock is not acquired", 5),
    ("un-acquired lock", 6),
    ("yield was used instead of yield from", 7),
    ("Task cannot await on itself", 8),
    ("cannot interrupt a c-task", 9),
]


class Sim:
    def __init__(self, case):
        from asynkit.experimental.interrupt import InterruptException
        from asynkit.experimental.priority import PriorityCondition, PriorityLock
        from asynkit.experimental.interrupt import InterruptCondition
        self.case = case
        self.w = World(case.get("loop", "stock"), boost_factor=None if case.get("boost") == "default" else 0.0)
        self.loop = self.w.loop
        self.log = []
        self.nblocks = 0
        self.InterruptException = InterruptException
        self.interrupts = {}
        self.users = {}
        self.bases = {}
        w = self.w
        orig_ct = self.loop.create_task

        def create_task(coro, **kw):
            t = orig_ct(coro, **kw)
            w.reg_task(t)
            w.reg_future(t)
            return t
        self.loop.create_task = create_task
        # one numbering for call_soon handles and timers
        base_call_at = type(self.loop).call_at

        def call_at(when, callback, *args, context=None):
            h = base_call_at(self.loop, when, callback, *args, context=context)
            w._hid[id(h)] = len(w.handles)
            w.handles.append(h)
            w.timers.append(h)
            return h
        self.loop.call_at = call_at
        with w.running():
            self.locks = [PriorityLock() if k == "prio" else asyncio.Lock() for k in case.get("locks", [])]
            self.conds = []
            for kind, li in case.get("conds", []):
                if kind == "prio":
                    self.conds.append(PriorityCondition(self.locks[li]))
                else:
                    self.conds.append(InterruptCondition(self.locks[li]))
            self.events = [asyncio.Event() for _ in range(case.get("events", 0))]

    # -- exceptions -----------------------------------------------------------
    def mkexc(self, e):
        k = e[0]
        if k == "cancelled":
            return asyncio.CancelledError()
        if k == "interrupt":
            if e[1] not in self.interrupts:
                cls = type(f"Interrupt{e[1]}", (self.InterruptException,), {})
                self.interrupts[e[1]] = cls()
            return self.interrupts[e[1]]
        if k == "timeout":
            return asyncio.TimeoutError()
        if k == "user":
            return self.users.setdefault(e[1], UserExc(e[1]))
        if k == "base":
            return self.bases.setdefault(e[1], BaseExc(e[1]))
        if k == "assertion":
            return AssertionError()
        if k == "runtime":
            return RuntimeError(f"rt{e[1]}")
        if k == "value":
            return ValueError()
        raise AssertionError(e)

    def exc_obs(self, e):
        from asynkit.experimental.interrupt import TimeoutInterrupt
        if isinstance(e, TimeoutInterrupt):
            return [3, getattr(e, "_verif_block", -1)]
        if isinstance(e, self.InterruptException):
            for tag, inst in self.interrupts.items():
                if inst is e:
                    return [2, tag]
            return [2, -1]
        if isinstance(e, asyncio.CancelledError):
            return [1, 0]
        if isinstance(e, asyncio.TimeoutError):
            return [4, 0]
        if isinstance(e, UserExc):
            return [5, e.args[0]]
        if isinstance(e, BaseExc):
            return [6, e.args[0]]
        if isinstance(e, AssertionError):
            return [7, 0]
        if isinstance(e, asyncio.InvalidStateError):
            return [10, 0]
        if isinstance(e, RuntimeError):
            msg = str(e)
            for m, code in RT_MESSAGES:
                if m in msg:
                    return [8, code]
            if msg.startswith("rt"):
                return [8, int(msg[2:])]
            return [8, 0]
        if isinstance(e, ValueError):
            return [9, 0]
        return [99, 0]

    @staticmethod
    def catches(c, e):
        if c == "cancel":
            return isinstance(e, asyncio.CancelledError)
        if c == "timeouterr":
            return isinstance(e, asyncio.TimeoutError)
        if c == "exception":
            return isinstance(e, Exception)
        if c == "base":
            return True
        return False

    # -- operations ---------------------------------------------------------
    def who(self):
        t = asyncio.current_task(self.loop)
        return 0 if t is None else self.w.tid(t) + 1

    def task(self, env, t):
        return self.w.tasks[env[t - 1000] if t >= 1000 else t]

    def fut(self, env, f):
        return self.w.futures[env[f - 1000] if f >= 1000 else f]

    def query_code(self):
        from asynkit.scheduling import runnable_tasks, blocked_tasks
        try:
            r = runnable_tasks(self.loop)
        except AssertionError:
            return -1
        try:
            b = blocked_tasks(self.loop)
        except AssertionError:
            return -2
        return len(r) * 10000 + len(b) * 100 + len(asyncio.all_tasks(self.loop))

    def exc_code(self, e):
        if e is None:
            return 900
        o = self.exc_obs(e)
        return {1: 901, 2: 910 + o[1], 3: 903, 4: 904, 5: 950 + o[1], 6: 960 + o[1], 7: 907,
                8: 980 + o[1], 9: 909, 10: 908}.get(o[0], 999)

    def logcb(self, n):
        self.log.append([self.who(), n])

    def sync_op(self, op, env):
        """operations without await; returns (handled, value)"""
        k = op[0]
        w = self.w
        if k == "log":
            self.log.append([self.who(), op[1]])
        elif k == "newfut":
            self.loop.create_future()
        elif k == "setresult":
            w.futures[op[1]].set_result(op[2])
        elif k == "setexc":
            w.futures[op[1]].set_exception(self.mkexc(op[2]))
        elif k == "futcancel":
            w.futures[op[1]].cancel()
        elif k == "cancel":
            self.task(env, op[1]).cancel()
        elif k == "eventset":
            self.events[op[1]].set()
        elif k == "eventclear":
            self.events[op[1]].clear()
        elif k == "release":
            self.locks[op[1]].release()
        elif k == "notify":
            self.conds[op[1]].notify(op[2])
        elif k == "notifyall":
            self.conds[op[1]].notify_all()
        elif k == "reinsert":
            from asynkit.scheduling import task_reinsert
            task_reinsert(self.task(env, op[1]), op[2])
        elif k == "callsoon":
            self.loop.call_soon(self.logcb, op[1])
        elif k == "callpos":
            from asynkit.loop.extensions import call_pos
            call_pos(op[1], self.logcb, op[2])
        elif k == "throw":
            from asynkit.experimental.interrupt import task_throw
            task_throw(self.task(env, op[1]), self.mkexc(op[2]))
        elif k == "setprio":
            from asynkit.experimental.priority import PriorityTask
            t = asyncio.current_task()
            if not isinstance(t, PriorityTask):
                raise ValueError()
            t.priority_value = float(fr(op[1]))
        elif k == "self":
            pass
        elif k == "query":
            self.log.append([self.who(), self.query_code()])
        elif k == "cancelaw":
            self.fut(env, op[1]).cancel()
        elif k == "callsooncancel":
            self.loop.call_soon(self.task(env, op[1]).cancel)
        elif k == "callsoonquery":
            self.loop.call_soon(lambda: self.log.append([self.who(), self.query_code()]))
        else:
            return False
        return True

    async def do_op(self, op, env):
        if self.sync_op(op, env):
            return
        k = op[0]
        w = self.w
        if k == "sleep0":
            await asyncio.sleep(0)
        elif k == "sleep":
            await asyncio.sleep(float(fr(op[1])))
        elif k == "awaitfut":
            await self.fut(env, op[1])
        elif k == "awaittask":
            await self.task(env, op[1])
        elif k == "eventwait":
            await self.events[op[1]].wait()
        elif k == "acquire":
            await self.locks[op[1]].acquire()
        elif k == "condwait":
            await self.conds[op[1]].wait()
        elif k == "sleepinsert":
            from asynkit.scheduling import sleep_insert
            await sleep_insert(op[1])
        elif k == "switch":
            from asynkit.scheduling import task_switch
            await task_switch(self.task(env, op[1]), op[2])
        elif k == "interrupt":
            from asynkit.experimental.interrupt import task_interrupt
            await task_interrupt(self.task(env, op[1]), self.mkexc(op[2]))
        else:
            raise AssertionError(op)

    def spawn_sync(self, how, child):
        k = how[0]
        coro = self.run_task(child)
        if k == "plain":
            return asyncio.create_task(coro)
        if k == "py":
            from asynkit.experimental.interrupt import create_pytask
            return create_pytask(coro)
        if k == "prio":
            from asynkit.experimental.priority import PriorityTask
            pv = float(fr(how[1]))
            if len(how) > 2 and how[2] == "enum":
                from asynkit.experimental.priority import Priority
                pv = {10.0: Priority.LOW, 0.0: Priority.NORMAL, -10.0: Priority.HIGH}.get(pv, pv)
            elif len(how) > 2 and how[2] == "int" and pv == int(pv):
                pv = int(pv)
            t = PriorityTask(coro, loop=self.loop, priority=pv)
            self.w.reg_task(t)
            self.w.reg_future(t)
            return t
        coro.close()
        raise AssertionError(how)

    # -- the script interpreter (completions: None = normal, ("ret", v)) -------------------
    async def run_task(self, s):
        c = await self.run(s, [], None)
        return c[1] if c is not None else None

    async def run(self, s, env, cur):
        while True:
            k = s[0]
            if k == "end":
                return None
            if k == "ret":
                return ("ret", s[1])
            if k == "raise":
                raise self.mkexc(s[1])
            if k == "reraise":
                if cur is None:
                    raise RuntimeError("rt0")
                raise cur
            if k == "do":
                await self.do_op(s[1], env)
                s = s[2]
                continue
            if k == "logexc":
                self.log.append([self.who(), self.exc_code(cur)])
                s = s[1]
                continue
            if k == "spawn":
                how = s[1]
                if how[0] == "descend":
                    from asynkit.scheduling import create_task_descend
                    t = await create_task_descend(self.run_task(s[2]))
                elif how[0] == "start":
                    from asynkit.scheduling import create_task_start
                    t = await create_task_start(self.run_task(s[2]))
                elif how[0] == "eager":
                    import asynkit
                    if len(how) > 1 and how[1] == "factory":
                        # a custom task factory (a plain Python callable creating the Task itself)
                        aw = asynkit.eager(self.run_task(s[2]),
                                           task_factory=lambda c: asyncio.get_running_loop().create_task(c, name="custom"))
                    else:
                        aw = asynkit.eager(self.run_task(s[2]))
                    env = env + [self.w.fid(aw)]
                    s = s[3]
                    continue
                else:
                    t = self.spawn_sync(how, s[2])
                env = env + [self.w.tid(t)]
                s = s[3]
                continue
            if k == "try":
                _, body, catch, handler, fin, rest = s
                c = None
                try:
                    try:
                        c = await self.run(body, env, cur)
                    except BaseException as e:
                        if not self.catches(catch, e):
                            raise
                        c = await self.run(handler, env, e)
                finally:
                    cf = await self.run(fin, env, cur)
                    if cf is not None:
                        return cf      # a return in finally overrides whatever was in flight
                if c is not None:
                    return c
                s = rest
                continue
            if k == "timeout":
                from asynkit.experimental.interrupt import task_timeout
                _, d, body, rest = s
                if d is not None:
                    self.nblocks += 1
                async with task_timeout(None if d is None else float(fr(d))):
                    c = await self.run(body, env, cur)
                if c is not None:
                    return c
                s = rest
                continue
            raise AssertionError(s)

    # -- environment actions ---------------------------------------------------
    def act(self, a):
        k = a[0]
        w = self.w
        if k == "step":
            w.step()
        elif k == "begin":
            w.begin_iteration()
        elif k == "advance":
            w.vnow = float(Fraction(w.vnow) + fr(a[1]))
        elif k == "spawn":
            self.spawn_sync(a[1], a[2])
        elif k == "do" and a[1][0] == "query":
            # from outside, while the loop is stopped: no running loop at all
            asyncio.events._set_running_loop(None)
            try:
                self.log.append([0, self.query_code()])
            except BaseException as e:
                self.log.append([0, -3])
            finally:
                asyncio.events._set_running_loop(self.loop)
        elif k == "do":
            try:
                if not self.sync_op(a[1], []):
                    raise AssertionError(a)
            except AssertionError as e:
                if e.args and e.args[0] is a:
                    raise
            except BaseException:
                pass
        else:
            raise AssertionError(a)

    # -- observation ---------------------------------------------------------------
    def obs_fut(self, f):
        st = f._state
        if st == "PENDING":
            s = [0]
        elif st == "CANCELLED":
            s = [3]
        elif f._exception is not None:
            s = [2, self.exc_obs(f._exception)]
            try:
                f._log_traceback = False
            except Exception:
                pass
        else:
            r = f._result
            s = [1, 0 if r is None else int(r)]
        cbs = f._callbacks
        return [s, len(cbs) if cbs else 0, bool(f._asyncio_future_blocking)]

    def handle_task(self, h):
        """ground truth, independent of asynkit's task_from_handle: is this handle a task's
        step or wakeup?  (decided from the callback object itself)"""
        cb = h._callback
        owner = getattr(cb, "__self__", None)
        if owner is None or id(owner) not in self.w._tid or self.w.tasks[self.w._tid[id(owner)]] is not owner:
            return -1
        name = (getattr(cb, "__name__", "") or type(cb).__name__)
        if name in ("__step", "_Task__step", "__wakeup", "_Task__wakeup", "task_wakeup", "TaskStepMethWrapper"):
            return self.w.tid(owner)
        return -1

    def obs_pq(self, q, objf):
        if q is None:
            return [0, []]
        return [q._sequence, [[L.qobs(Fraction(e.priority)), e.sequence, objf(e.obj)] for e in q._pq]]

    def observe(self):
        from asynkit.experimental.priority import PriorityLock, PriorityCondition, PriorityTask
        w = self.w
        hl = [[w.hid(h), bool(h._cancelled), self.handle_task(h)] for h in w.ready_handles()]
        if w.kind == "prio":
            q = self.loop.ready_queue
            arr = []
            for e in q._pq._pq:
                pv = e.priority
                arr.append([pv.priority_class, L.qobs(Fraction(pv.base_priority)), L.qobs(Fraction(pv.priority_boost)),
                            pv.inserted_at, e.sequence, w.hid(e.obj)])
            ready = [1, hl, [q.last_maintenance, q.n_inserted, q.n_removed, q._pq._sequence, arr]]
        else:
            ready = [0, hl]
        futs = [self.obs_fut(f) for f in w.futures]
        tasks = []
        for t in w.tasks:
            fw = t._fut_waiter
            if isinstance(t, PriorityTask):
                holding = sorted(self.locks.index(l) for l in t._holding_locks)
                wo = -1 if t._waiting_on is None else self.locks.index(t._waiting_on)
                pr = [L.qobs(Fraction(t.priority_value))]
                try:
                    ep = [L.qobs(Fraction(t.effective_priority()))]
                except RecursionError:
                    ep = [[-999, 1]]
            else:
                holding, wo, pr, ep = [], -1, [], []
            tasks.append([t.done(), -1 if fw is None else w.fid(fw), bool(t._must_cancel), holding, wo, pr, ep])
        locks = []
        for l in self.locks:
            if isinstance(l, PriorityLock):
                o = l._owning() if l._owning is not None else None
                locks.append([0, l._locked, -1 if o is None else w.tid(o),
                              self.obs_pq(l._waiters, lambda ob: w.fid(ob[0]))])
            else:
                locks.append([1, l._locked, [w.fid(f) for f in (l._waiters or [])]])
        conds = []
        for c in self.conds:
            if isinstance(c, PriorityCondition):
                conds.append([0, self.obs_pq(c._waiters, lambda ob: w.fid(ob))])
            else:
                conds.append([1, [w.fid(f) for f in c._waiters]])
        events = [[e._value, [w.fid(f) for f in e._waiters]] for e in self.events]
        timers = [[L.qobs(Fraction(h._when)), w.hid(h), bool(h._cancelled)] for h in self.loop._scheduled]
        errs = []
        for ctx in w.errors:
            e = ctx.get("exception")
            errs.append(1 if isinstance(e, asyncio.InvalidStateError) else 2 if isinstance(e, ValueError) else 3)
        return [ready, futs, tasks, locks, conds, events, timers, L.qobs(Fraction(w.vnow)),
                [list(x) for x in self.log], errs]

    def run_case(self):
        out = []
        with self.w:
            for a in self.case["acts"]:
                self.act(a)
                out.append(self.observe())
        return out


def impl_sched(case):
    import sys, logging
    logging.disable(logging.CRITICAL)
    sys.unraisablehook = lambda *a: None     # pending coroutines closed at teardown are noisy
    sim = Sim(case)
    try:
        return sim.run_case()
    finally:
        # deterministic teardown: finish every pending coroutine NOW (their finally blocks
        # run against this case's loop), then collect, so that nothing of this case runs
        # in the middle of the next one
        import gc
        try:
            with sim.w.running():
                for t in sim.w.tasks:
                    try:
                        t._log_destroy_pending = False
                        if not t.done():
                            t.get_coro().close()
                    except BaseException:
                        pass
        except BaseException:
            pass
        try:
            sim.loop._ready.clear()
            sim.loop._scheduled.clear()
            sim.loop.close()
        except BaseException:
            pass
        sim.w.tasks.clear(); sim.w.futures.clear(); sim.w.handles.clear()
        del sim
        gc.collect(1)


# ----------------------------------------------------------------------------
# Gallina printers
# ----------------------------------------------------------------------------
def coq_exn(e):
    k = e[0]
    return {"cancelled": "ECancelled", "timeout": "ETimeout", "assertion": "EAssertion",
            "value": "EValue"}.get(k) or {
        "interrupt": lambda: f"(EInterrupt {L.z(e[1])})",
        "user": lambda: f"(EUser {L.z(e[1])})",
        "base": lambda: f"(EBase {L.z(e[1])})",
        "runtime": lambda: f"(ERuntime {L.z(e[1])})"}[k]()


def coq_optnat(p):
    return "None" if p is None else f"(Some {L.nat(p)})"


def coq_op(op):
    k = op[0]
    n = L.nat
    table = {
        "log": lambda: f"OLog {L.z(op[1])}",
        "sleep0": lambda: "OSleep0",
        "sleep": lambda: f"OSleep {L.q(fr(op[1]))}",
        "newfut": lambda: "ONewFut",
        "awaitfut": lambda: f"OAwaitFut {n(op[1])}",
        "awaittask": lambda: f"OAwaitTask {n(op[1])}",
        "setresult": lambda: f"OSetResult {n(op[1])} {L.z(op[2])}",
        "setexc": lambda: f"OSetExc {n(op[1])} {coq_exn(op[2])}",
        "futcancel": lambda: f"OFutCancel {n(op[1])}",
        "cancel": lambda: f"OCancel {n(op[1])}",
        "eventwait": lambda: f"OEventWait {n(op[1])}",
        "eventset": lambda: f"OEventSet {n(op[1])}",
        "eventclear": lambda: f"OEventClear {n(op[1])}",
        "acquire": lambda: f"OAcquire {n(op[1])}",
        "release": lambda: f"ORelease {n(op[1])}",
        "condwait": lambda: f"OCondWait {n(op[1])}",
        "notify": lambda: f"OCondNotify {n(op[1])} {n(op[2])}",
        "notifyall": lambda: f"OCondNotifyAll {n(op[1])}",
        "sleepinsert": lambda: f"OSleepInsert {n(op[1])}",
        "switch": lambda: f"OTaskSwitch {n(op[1])} {coq_optnat(op[2])}",
        "reinsert": lambda: f"OTaskReinsert {n(op[1])} {n(op[2])}",
        "callsoon": lambda: f"OCallSoon {L.z(op[1])}",
        "callpos": lambda: f"OCallPos {n(op[1])} {L.z(op[2])}",
        "throw": lambda: f"OTaskThrow {n(op[1])} {coq_exn(op[2])}",
        "interrupt": lambda: f"OTaskInterrupt {n(op[1])} {coq_exn(op[2])}",
        "setprio": lambda: f"OSetPrio {L.q(fr(op[1]))}",
        "self": lambda: "OSelf",
        "query": lambda: "OQuery",
        "callsoonquery": lambda: "OCallSoonQuery",
        "callsooncancel": lambda: f"OCallSoonCancel {n(op[1])}",
        "cancelaw": lambda: f"OCancelAw {n(op[1])}",
    }
    return "(" + table[k]() + ")"


def coq_how(h):
    return {"plain": "SPlain", "py": "SPy", "descend": "SDescend", "start": "SStart", "eager": "SEager"}.get(h[0]) \
        or f"(SPrio {L.q(fr(h[1]))})"


CATCH = {"cancel": "CCancel", "timeouterr": "CTimeoutErr", "exception": "CException", "base": "CBase",
         "never": "CNever"}


def coq_script(s):
    k = s[0]
    if k == "end":
        return "SEnd"
    if k == "ret":
        return f"(SRet {L.z(s[1])})"
    if k == "raise":
        return f"(SRaise {coq_exn(s[1])})"
    if k == "reraise":
        return "SReraise"
    if k == "logexc":
        return f"(SLogExc {coq_script(s[1])})"
    if k == "do":
        return f"(SDo {coq_op(s[1])} {coq_script(s[2])})"
    if k == "spawn":
        return f"(SSpawn {coq_how(s[1])} {coq_script(s[2])} {coq_script(s[3])})"
    if k == "try":
        return (f"(STry {coq_script(s[1])} {CATCH[s[2]]} {coq_script(s[3])} {coq_script(s[4])} "
                f"{coq_script(s[5])})")
    if k == "timeout":
        d = "None" if s[1] is None else f"(Some {L.q(fr(s[1]))})"
        return f"(STimeout {d} {coq_script(s[2])} {coq_script(s[3])})"
    raise AssertionError(s)


def coq_act(a):
    k = a[0]
    if k == "step":
        return "XStep"
    if k == "begin":
        return "XBegin"
    if k == "advance":
        return f"(XAdvance {L.q(fr(a[1]))})"
    if k == "spawn":
        return f"(XSpawn {coq_how(a[1])} {coq_script(a[2])})"
    if k == "do":
        return f"(XDo {coq_op(a[1])})"
    raise AssertionError(a)


def coq_case(case):
    locks = L.lst(["LPrio" if k == "prio" else "LPlain" for k in case.get("locks", [])])
    conds = L.lst([L.pair("CPrio" if k == "prio" else "CIntr", L.nat(li)) for k, li in case.get("conds", [])])
    return (f"(mkIn {L.boolean(case.get('loop') == 'prio')} {locks} {conds} {L.nat(case.get('events', 0))} "
            + L.lst([coq_act(a) for a in case["acts"]]) + ")")


# helpers to build scripts
def seq(*ops, rest=("end",)):
    s = list(rest)
    for op in reversed(ops):
        s = ["do", list(op), s]
    return s
