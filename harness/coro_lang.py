"""Shared coroutine-layer harness (C01..C07): the `prog` body syntax of
coq/theories/Coro/Prog.v as JSON, generators (bounded-exhaustive and random),
a renderer to Python source, a Gallina printer, and the driver that applies
send/throw/close sequences and records the canonical trace.

JSON forms (mirrors Prog.v / Tree.v)
  prog : ["skip"] | ["log", n] | ["tok", y] | ["call", p] | ["seq", p, q]
       | ["try", body, [cls, ...], handler] | ["fin", body, fin]
       | ["ret", v] | ["raise", exn] | ["reraise"] | ["setvar", x, v] | ["getvar", x]
  val  : None | int
  exn  : ["E", n] | ["BaseE", n] | ["GeneratorExit"] | ["CancelledError"] | ["StopIteration", v]
       | ["StopAsyncIteration"] | ["OOBData", v] | ["SynchronousAbort"] | ["AssertionError"]
  cls  : "E1" "E2" .. "BaseE1" .. "GeneratorExit" "CancelledError" "StopIteration" "RuntimeError"
         "Exception" "BaseException" "OOBData" ...
  dop  : ["send", v] | ["throw", exn] | ["close"]

Canonical observations (mirrors Tree.v oval/oexn/oevent/ooutcome)
  val      None -> [] ; int -> int
  exn      [1] GeneratorExit [2] CancelledError [3, v] StopIteration [4] StopAsyncIteration
           [5, kind] RuntimeError [6, k] TypeError [7, k] ValueError [8] AssertionError
           [9] SynchronousAbort [10, d] OOBData [11, n] E n [12, n] BaseE n
           [13] SynchronousError [14] InvalidStateError
  event    [0, n] log  [1, v] received  [2, exn] caught  [3, v] nested call returned
  outcome  [0, y] yielded  [1, v] returned (StopIteration / close() returned)  [2, exn] raised
"""
from __future__ import annotations

import asyncio
import contextvars
import inspect
import random
import sys
import types
import warnings

from . import coqlit as L

warnings.filterwarnings("ignore", category=RuntimeWarning, message="coroutine .* was never awaited")

# ----------------------------------------------------------------------------
# runtime support for rendered bodies
# ----------------------------------------------------------------------------
_EXC_CLASSES: dict[str, type] = {}


def exc_class(name: str) -> type:
    """Python class for a class name of the syntax"""
    if name in _EXC_CLASSES:
        return _EXC_CLASSES[name]
    fixed = {
        "GeneratorExit": GeneratorExit, "CancelledError": asyncio.CancelledError,
        "StopIteration": StopIteration, "StopAsyncIteration": StopAsyncIteration,
        "RuntimeError": RuntimeError, "TypeError": TypeError, "ValueError": ValueError,
        "AssertionError": AssertionError, "Exception": Exception, "BaseException": BaseException,
        "InvalidStateError": asyncio.InvalidStateError,
    }
    if name in fixed:
        cls = fixed[name]
    elif name in ("OOBData", "SynchronousAbort", "SynchronousError"):
        import asynkit
        import asynkit.coroutine
        cls = {"OOBData": asynkit.OOBData, "SynchronousAbort": asynkit.coroutine.SynchronousAbort,
               "SynchronousError": asynkit.coroutine.SynchronousError}[name]
    elif name.startswith("BaseE"):
        cls = type(name, (BaseException,), {"n": int(name[5:])})
    elif name.startswith("E"):
        cls = type(name, (Exception,), {"n": int(name[1:])})
    else:
        raise KeyError(name)
    _EXC_CLASSES[name] = cls
    return cls


def make_exn(e) -> BaseException:
    k = e[0]
    if k == "E":
        return exc_class(f"E{e[1]}")()
    if k == "BaseE":
        return exc_class(f"BaseE{e[1]}")()
    if k == "StopIteration":
        return StopIteration() if e[1] is None else StopIteration(e[1])
    if k == "OOBData":
        return exc_class("OOBData")(e[1])
    return exc_class(k)()


_RT = [("ignored GeneratorExit", 1), ("cannot reuse already awaited", 2),
       ("coroutine raised StopIteration", 3), ("generator raised StopIteration", 4),
       ("No active exception to re", 5), ("coroutine raised OOBData", 6),
       ("Monitor cannot be re-entered", 7), ("Monitor not active", 8)]


def enc(v):
    if v is None:
        return []
    if isinstance(v, bool):
        return [98]
    if isinstance(v, int):
        return v
    return [99]


def exc_code(e: BaseException):
    t = type(e)
    if t is GeneratorExit:
        return [1]
    if t is asyncio.CancelledError:
        return [2]
    if t is StopIteration:
        return [3, enc(e.value)]
    if t is StopAsyncIteration:
        return [4]
    if t.__name__ == "SynchronousError" and t.__module__.startswith("asynkit"):
        return [13]
    if t is RuntimeError:
        msg = str(e)
        for frag, code in _RT:
            if frag in msg:
                return [5, code]
        return [5, 199]
    if t is TypeError:
        return [6, 1 if "can't send non-None value to a just-started" in str(e) else 99]
    if t is ValueError:
        return [7, 1 if "already executing" in str(e) else 99]
    if t is AssertionError:
        return [8]
    if t.__name__ == "SynchronousAbort" and t.__module__.startswith("asynkit"):
        return [9]
    if t.__name__ == "OOBData" and t.__module__.startswith("asynkit"):
        return [10, enc(e.data)]
    if t is asyncio.InvalidStateError:
        return [14]
    if issubclass(t, Exception) and hasattr(t, "n") and t.__name__.startswith("E"):
        return [11, t.n]
    if hasattr(t, "n") and t.__name__.startswith("BaseE"):
        return [12, t.n]
    return [99, abs(hash(t.__name__)) % 1000]


IGNORED_GENEXIT = [2, [5, 1]]      # outcome: raised RuntimeError("coroutine ignored GeneratorExit")


@types.coroutine
def tok(y):
    return (yield y)


CV = {x: contextvars.ContextVar(f"cv{x}", default=None) for x in range(4)}


# ----------------------------------------------------------------------------
# rendering a prog as Python source
# ----------------------------------------------------------------------------
def _pyval(v):
    return "None" if v is None else repr(int(v))


def _pyexn(e):
    k = e[0]
    if k == "E":
        return f"X('E{e[1]}')()"
    if k == "BaseE":
        return f"X('BaseE{e[1]}')()"
    if k == "StopIteration":
        return "StopIteration()" if e[1] is None else f"StopIteration({int(e[1])})"
    if k == "OOBData":
        return f"X('OOBData')({_pyval(e[1])})"
    return f"X('{k}')()"


class _Render:
    def __init__(self):
        self.funcs: list[str] = []

    def stmts(self, p, ind):
        pad = "    " * ind
        k = p[0]
        if k == "skip":
            return [pad + "pass"]
        if k == "log":
            return [pad + f"L.append([0, {int(p[1])}])"]
        if k == "tok":
            return [pad + f"L.append([1, enc(await tok({int(p[1])}))])"]
        if k == "call":
            name = self.func(p[1])
            return [pad + f"L.append([3, enc(await keep({name}()))])"]
        if k == "seq":
            return self.stmts(p[1], ind) + self.stmts(p[2], ind)
        if k == "try":
            cls = ", ".join(f"X('{c}')" for c in p[2])
            return ([pad + "try:"] + self.stmts(p[1], ind + 1)
                    + [pad + f"except ({cls},) as _e:", pad + "    L.append([2, xc(_e)])"]
                    + self.stmts(p[3], ind + 1))
        if k == "fin":
            return ([pad + "try:"] + self.stmts(p[1], ind + 1)
                    + [pad + "finally:"] + self.stmts(p[2], ind + 1))
        if k == "ret":
            return [pad + f"return {_pyval(p[1])}"]
        if k == "raise":
            return [pad + f"raise {_pyexn(p[1])}"]
        if k == "reraise":
            return [pad + "raise"]
        if k == "setvar":
            return [pad + f"CV[{int(p[1])}].set({_pyval(p[2])})"]
        if k == "getvar":
            return [pad + f"L.append([1, enc(CV[{int(p[1])}].get())])"]
        raise ValueError(p)

    def func(self, p):
        name = f"f{len(self.funcs)}"
        self.funcs.append("")           # reserve the name (definition order is irrelevant)
        body = self.stmts(p, 1)
        self.funcs[int(name[1:])] = f"async def {name}():\n" + "\n".join(body) + "\n"
        return name


def render(p) -> str:
    """Python source defining `f0` (the body) and the functions of its nested calls"""
    r = _Render()
    r.func(p)
    return "\n".join(r.funcs)


class Body:
    """a compiled prog: a fresh coroutine of the body per call of `new()`; the log"""

    def __init__(self, p):
        self.log: list = []
        self.kept: list = []
        self.ns = {"L": self.log, "enc": enc, "xc": exc_code, "tok": tok, "X": exc_class, "CV": CV,
                   "keep": self._keep}
        exec(compile(render(p), "<prog>", "exec"), self.ns)

    def _keep(self, c):
        self.kept.append(c)
        return c

    def new(self):
        return self._keep(self.ns["f0"]())

    def drain(self):
        out = list(self.log)
        del self.log[:]
        return out

    def dispose(self):
        """finish every coroutine created for this body without logging or printing"""
        self.ns["L"] = []
        for c in reversed(self.kept):
            for _ in range(50):
                try:
                    c.close()
                    break
                except BaseException:
                    pass
        del self.kept[:]


class quiet:
    """no 'Exception ignored in' / never-awaited noise while objects are dropped"""

    def __enter__(self):
        self.hook = sys.unraisablehook
        sys.unraisablehook = lambda *a: None
        return self

    def __exit__(self, *a):
        sys.unraisablehook = self.hook


# ----------------------------------------------------------------------------
# driver
# ----------------------------------------------------------------------------
def coro_state(c) -> int:
    """0 created, 1 suspended, 2 closed, 3 running (coroutine or generator)"""
    if inspect.iscoroutine(c):
        s = inspect.getcoroutinestate(c)
        return {"CORO_CREATED": 0, "CORO_SUSPENDED": 1, "CORO_CLOSED": 2, "CORO_RUNNING": 3}[s]
    s = inspect.getgeneratorstate(c)
    return {"GEN_CREATED": 0, "GEN_SUSPENDED": 1, "GEN_CLOSED": 2, "GEN_RUNNING": 3}[s]


def apply_op(it, op, ctx=None):
    """one driver operation on an iterator/coroutine -> canonical outcome"""
    k = op[0]
    try:
        if k == "send":
            y = ctx.run(it.send, op[1]) if ctx is not None else it.send(op[1])
        elif k == "throw":
            ex = make_exn(op[1])
            y = ctx.run(it.throw, ex) if ctx is not None else it.throw(ex)
        else:
            (ctx.run(it.close) if ctx is not None else it.close())
            return [1, []]
    except StopIteration as e:
        return [1, enc(e.value)]
    except BaseException as e:
        return [2, exc_code(e)]
    return [0, enc(y)]


def drive(it, ops, body: Body, stop_at_end=True, ctx=None, after_step=None):
    """apply ops; per step [events, outcome] (+ whatever after_step() returns)"""
    trace = []
    for op in ops:
        out = apply_op(it, op, ctx)
        step = [body.drain(), out]
        if after_step is not None:
            step.extend(after_step(out))
        trace.append(step)
        if stop_at_end and out[0] != 0:
            break
    return trace


async def lift(a):
    return await a


# ----------------------------------------------------------------------------
# Gallina printers
# ----------------------------------------------------------------------------
def coq_val(v):
    return "VNone" if v is None else f"(VInt {L.z(v)})"


def coq_exn(e):
    k = e[0]
    if k in ("E", "BaseE"):
        return f"({k} {L.z(e[1])})"
    if k in ("StopIteration", "OOBData"):
        return f"({k} {coq_val(e[1])})"
    return k


def coq_cls(c):
    if c.startswith("BaseE") and c[5:].isdigit():
        return f"(CBaseE {L.z(int(c[5:]))})"
    if c.startswith("E") and c[1:].isdigit():
        return f"(CE {L.z(int(c[1:]))})"
    return "C" + c


def coq_prog(p):
    k = p[0]
    if k == "skip":
        return "PSkip"
    if k == "log":
        return f"(PLog {L.z(p[1])})"
    if k == "tok":
        return f"(PAwaitTok {L.z(p[1])})"
    if k == "call":
        return f"(PCall {coq_prog(p[1])})"
    if k == "seq":
        return f"(PSeq {coq_prog(p[1])} {coq_prog(p[2])})"
    if k == "try":
        return f"(PTry {coq_prog(p[1])} {L.lst([coq_cls(c) for c in p[2]])} {coq_prog(p[3])})"
    if k == "fin":
        return f"(PFinally {coq_prog(p[1])} {coq_prog(p[2])})"
    if k == "ret":
        return f"(PReturn {coq_val(p[1])})"
    if k == "raise":
        return f"(PRaise {coq_exn(p[1])})"
    if k == "reraise":
        return "PReraise"
    if k == "setvar":
        return f"(PSetVar {L.z(p[1])} {coq_val(p[2])})"
    if k == "getvar":
        return f"(PGetVar {L.z(p[1])})"
    raise ValueError(p)


def coq_dop(op):
    if op[0] == "send":
        return f"DSend {coq_val(op[1])}"
    if op[0] == "throw":
        return f"DThrow {coq_exn(op[1])}"
    return "DClose"


def coq_ops(ops):
    return L.lst([coq_dop(o) for o in ops])


# ----------------------------------------------------------------------------
# generators of progs
# ----------------------------------------------------------------------------
CLS_SETS_SMALL = [["E1"], ["GeneratorExit"], ["BaseException"], ["CancelledError", "E2"], ["Exception"]]
CLS_ALL = ["E1", "E2", "BaseE1", "CancelledError", "GeneratorExit", "Exception", "BaseException",
           "StopIteration", "RuntimeError"]
RAISABLE = [["E", 1], ["E", 2], ["BaseE", 1], ["CancelledError"], ["StopIteration", None],
            ["StopIteration", 4], ["GeneratorExit"]]


def prog_size(p):
    k = p[0]
    if k == "call":
        return 1 + prog_size(p[1])
    if k in ("seq", "fin"):
        return 1 + prog_size(p[1]) + prog_size(p[2])
    if k == "try":
        return 1 + prog_size(p[1]) + prog_size(p[3])
    return 1


def enum_progs(n, in_handler=False, leaves=None, cls_sets=None):
    """all progs with exactly n nodes over a small alphabet (seq is right-nested)"""
    leaves = leaves or [["log", 1], ["tok", 1], ["ret", 5], ["raise", ["E", 1]]]
    cls_sets = cls_sets or CLS_SETS_SMALL
    if n <= 0:
        return
    if n == 1:
        yield from leaves
        if in_handler:
            yield ["reraise"]
        return
    yield from (["call", b] for b in enum_progs(n - 1, False, leaves, cls_sets))
    for k in range(1, n - 1):
        for a in enum_progs(k, in_handler, leaves, cls_sets):
            if a[0] != "seq" and a[0] not in ("ret", "raise", "reraise"):
                for b in enum_progs(n - 1 - k, in_handler, leaves, cls_sets):
                    yield ["seq", a, b]
        for a in enum_progs(k, in_handler, leaves, cls_sets):
            for b in enum_progs(n - 1 - k, in_handler, leaves, cls_sets):
                yield ["fin", a, b]
            for cs in cls_sets:
                for h in enum_progs(n - 1 - k, True, leaves, cls_sets):
                    yield ["try", a, cs, h]


def renumber(p, counter=None):
    """give every log / tok its own number (order of appearance) so traces tell them apart"""
    counter = counter if counter is not None else {"log": 0, "tok": 0}
    k = p[0]
    if k in ("log", "tok"):
        counter[k] += 1
        return [k, counter[k] + (10 if k == "tok" else 0)]
    if k == "call":
        return ["call", renumber(p[1], counter)]
    if k in ("seq", "fin"):
        a = renumber(p[1], counter)
        return [k, a, renumber(p[2], counter)]
    if k == "try":
        a = renumber(p[1], counter)
        return ["try", a, p[2], renumber(p[3], counter)]
    return p


def random_prog(rng: random.Random, size: int, in_handler=False, depth=0, vars_=False, oob=False):
    """random prog of roughly `size` nodes, biased towards awaits under handlers"""
    if size <= 1:
        r = rng.random()
        if r < 0.42:
            return ["tok", 1]
        if r < 0.62:
            return ["log", 1]
        if r < 0.72:
            return ["ret", rng.choice([None, 5, 6])]
        if r < 0.86:
            return ["raise", rng.choice(RAISABLE + ([["OOBData", 1], ["OOBData", None]] * 3 if oob else []))]
        if r < 0.92 and in_handler:
            return ["reraise"]
        if vars_ and r < 0.96:
            return rng.choice([["setvar", rng.randrange(2), rng.choice([None, 1, 2])],
                               ["getvar", rng.randrange(2)]])
        return ["tok", 1]
    r = rng.random()
    rest = size - 1
    k = rng.randint(1, max(1, rest - 1))
    if r < 0.34:
        a = random_prog(rng, k, in_handler, depth, vars_, oob)
        return ["seq", a, random_prog(rng, rest - k, in_handler, depth, vars_, oob)]
    if r < 0.68:
        ncls = rng.choice([1, 1, 1, 2, 3])
        cls = rng.sample(CLS_ALL, ncls)
        return ["try", random_prog(rng, k, in_handler, depth, vars_, oob), cls,
                random_prog(rng, rest - k, True, depth, vars_, oob)]
    if r < 0.84:
        return ["fin", random_prog(rng, k, in_handler, depth, vars_, oob),
                random_prog(rng, rest - k, in_handler, depth, vars_, oob)]
    if depth < 3:
        return ["call", random_prog(rng, rest, False, depth + 1, vars_, oob)]
    a = random_prog(rng, k, in_handler, depth, vars_, oob)
    return ["seq", a, random_prog(rng, rest - k, in_handler, depth, vars_, oob)]


# ----------------------------------------------------------------------------
# generators of driver sequences
# ----------------------------------------------------------------------------
OPS_SMALL = [["send", 7], ["throw", ["E", 1]], ["throw", ["GeneratorExit"]], ["close"]]
OPS_ALL = [["send", None], ["send", 7], ["send", 8], ["throw", ["E", 1]], ["throw", ["E", 2]],
           ["throw", ["BaseE", 1]], ["throw", ["CancelledError"]], ["throw", ["GeneratorExit"]],
           ["throw", ["StopIteration", None]], ["throw", ["StopIteration", 3]], ["close"]]


def native_outcomes(p, ops):
    """outcomes of driving `await body` natively (used to steer generators)"""
    with quiet():
        b = Body(p)
        try:
            r = lift(b.new())
            b.kept.append(r)
            return [s[1] for s in drive(r, ops, b)]
        finally:
            b.dispose()


def enum_live_ops(p, depth, alphabet=None, first=(("send", None),)):
    """every driver sequence of at most `depth` operations after the initial
    send(None) that is maximal: it ends the await, or has full length.  Prefixes
    are extended only while the natively awaited body is still suspended."""
    alphabet = alphabet or OPS_SMALL
    first = [list(o) for o in first]

    def rec(prefix, d):
        outs = native_outcomes(p, prefix)
        live = len(outs) == len(prefix) and (not outs or outs[-1][0] == 0)
        if not live or d == 0:
            yield prefix
            return
        for op in alphabet:
            yield from rec(prefix + [op], d - 1)

    yield from rec(first, depth)


def random_ops(rng: random.Random, n: int, start=True):
    ops = [["send", None]] if start else []
    for _ in range(n):
        r = rng.random()
        if r < 0.45:
            ops.append(["send", rng.choice([None, 7, 8])])
        elif r < 0.9:
            ops.append(rng.choice(OPS_ALL[3:10]))
        else:
            ops.append(["close"])
    return ops


def cut_at_ignored(trace):
    """index of the first step whose outcome is 'coroutine ignored GeneratorExit', or None"""
    for i, s in enumerate(trace):
        if s[1] == IGNORED_GENEXIT:
            return i
    return None
