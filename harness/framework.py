"""Shared check machinery: build the Coq development, re-check the property
theorem and its assumptions, run the correspondence (implementation vs model,
model evaluated inside the Coq kernel with vm_compute), run the independent
property oracles, decide the verdict, write evidence and replay files.

Verdicts (DESIGN 2.4):
  exit 0                       everything agreed, every oracle passed
  KNOWN-FINDING line, exit 0   failure whose signature is listed as `known`
  VIOLATION ... replay=<file>                         oracle failure (failing input in replay)
  VIOLATION ... replay=<file> no-failing-input-found  proof obligation or correspondence broke
"""
from __future__ import annotations

import dataclasses
import fcntl
import hashlib
import json
import os
import random
import re
import signal
import subprocess
import sys
import time
import traceback
from typing import Any, Callable, Iterable, Optional

from . import coqlit

VERIF = os.path.dirname(os.path.dirname(os.path.abspath(__file__)))
COQ = os.path.join(VERIF, "coq")
CASES = os.path.join(COQ, "cases")
EVID = os.path.join(VERIF, "evidence")
REPLAYS = os.path.join(VERIF, "replays")
NCPU = 3  # parallel coqc beyond ~4 collapses in this VM (page-fault contention)
SHARD = 600
SHARD_BYTES = 60000

TRUSTED_BASE = [
    "Coq 8.16.1 kernel including the vm_compute bytecode VM (used by the in-kernel correspondence evaluation and by *_refuted / finite-domain proofs); no native_compute",
    "no extraction: the model is evaluated by coqc itself on generated cases_*.v files",
    "hand-written Gallina models (coq/theories/**) tied to /repo only by the per-run correspondence check of this harness; its strength is bounded by the generators (distribution in this file)",
    "Python harness (generators, runners, canonicalisation, Gallina printer, oracles) is trusted for detection, not for proofs",
    "modelled, not verified: CPython 3.12.1 coroutine/generator protocol, asyncio Future/Task/loop, heapq (HeapqModel transcription), deque, contextvars",
]


class ImplTimeout(Exception):
    pass


def _alarm(signum, frame):
    raise ImplTimeout()


@dataclasses.dataclass
class Stream:
    """One correspondence stream: a generator of cases, the implementation
    runner, the Gallina printer of the input, the name of the model's run
    function and an independent oracle on the implementation's observation."""
    name: str
    imports: list[str]
    run: str                      # Gallina: input -> obs
    input_type: str               # Gallina type of the input
    gen: Callable[[random.Random, str], Iterable[dict]]
    impl: Callable[[dict], Any]   # returns an observation (nested int lists)
    to_coq: Callable[[dict], str]
    oracle: Callable[[dict, Any], Optional[str]]
    nontrivial: Callable[[dict, Any], bool] = lambda c, o: True
    describe: Callable[[dict], Any] = lambda c: c
    shrink: Optional[Callable[[dict], Iterable[dict]]] = None
    exhaustive: bool = False
    corr_name: str = ""
    full_terms: bool = False      # compare complete observation terms instead of 2x61-bit hashes


@dataclasses.dataclass
class Prop:
    pid: str
    props_v: str                  # theories/Props/Cxx.v
    theory_files: list[str]
    streams: list[Stream]
    allowed_axioms: list[str] = dataclasses.field(default_factory=list)
    rule: str = ""
    signature: Callable[[str, dict, str], Optional[str]] = lambda stream, case, msg: None
    extra: Optional[Callable[[str, random.Random], dict]] = None  # extra evidence/self-checks
    assumptions: list[str] = dataclasses.field(default_factory=list)
    witnesses: Optional[Callable[[], list]] = None  # known-finding witnesses replayed each run


# ----------------------------------------------------------------------------
# Coq side
# ----------------------------------------------------------------------------
FORBIDDEN = re.compile(
    r"\b(Admitted|admit|Axiom|Axioms|Parameter|Parameters|Conjecture|Conjectures|"
    r"Unset\s+Guard|bypass_check|Admit\s+Obligations|Unset\s+Positivity|"
    r"Unset\s+Universe\s+Checking|type-in-type|impredicative-set)\b")


def strip_comments(src: str) -> str:
    out, depth, i = [], 0, 0
    while i < len(src):
        if src.startswith("(*", i):
            depth += 1
            i += 2
        elif src.startswith("*)", i) and depth:
            depth -= 1
            i += 2
        else:
            if not depth:
                out.append(src[i])
            i += 1
    return "".join(out)


def gate() -> list[str]:
    """no Admitted / Axiom / Parameter / guard switches anywhere in the development"""
    bad = []
    for root, _, files in os.walk(os.path.join(COQ, "theories")):
        for f in files:
            if f.endswith(".v"):
                p = os.path.join(root, f)
                src = strip_comments(open(p).read())
                for m in FORBIDDEN.finditer(src):
                    bad.append(f"{os.path.relpath(p, COQ)}: {m.group(0)}")
                # Variable/Hypothesis outside a section
                depth = 0
                for line in src.splitlines():
                    s = line.strip()
                    if re.match(r"(Section|Module)\s", s):
                        depth += 1 if s.startswith("Section") else 0
                    elif re.match(r"End\s", s) and depth:
                        depth -= 1
                    elif re.match(r"(Variable|Variables|Hypothesis|Hypotheses|Context)\b", s) and depth == 0:
                        bad.append(f"{os.path.relpath(p, COQ)}: {s[:40]} outside a section")
    return bad


def build(log: list[str], prop: "Prop") -> bool:
    """full .vo build (incremental) of the property's theorem file, its theory
    files and the modules the correspondence imports; serialised by a lock"""
    os.makedirs(CASES, exist_ok=True)
    targets = {prop.props_v[:-2] + ".vo"}
    for f in prop.theory_files:
        if os.path.exists(os.path.join(COQ, f)):
            targets.add(f[:-2] + ".vo")
    for st in prop.streams:
        for imp in st.imports:
            targets.add("theories/" + imp.replace(".", "/") + ".vo")
    r = subprocess.run(["sh", "mk.sh"] + sorted(targets), cwd=COQ, capture_output=True, text=True)
    log.append(r.stdout[-3000:] + r.stderr[-3000:])
    return r.returncode == 0


def check_props_file(prop: Prop) -> tuple[bool, str, list[str]]:
    """re-compile Props/Cxx.v (statements only, closed by `exact`) and read the
    Print Assumptions output"""
    r = subprocess.run(["timeout", "300", "coqc", "-Q", "theories", "Asynkit", prop.props_v],
                       cwd=COQ, capture_output=True, text=True)
    out = r.stdout + r.stderr
    if r.returncode != 0:
        return False, out, []
    axioms = []
    # "Closed under the global context" or "Axioms:\n name : type"
    for block in re.split(r"(?=Axioms:)", out):
        if block.startswith("Axioms:"):
            for line in block.splitlines()[1:]:
                m = re.match(r"^(\S+)\s*:", line)
                if m:
                    axioms.append(m.group(1))
                elif line and not line.startswith(" "):
                    break
    return True, out, sorted(set(axioms))


STMT = re.compile(r"^\s*(Theorem|Lemma|Corollary|Example|Fact|Proposition|Remark)\s+(\w+)", re.M)


REQ = re.compile(r"From\s+Asynkit\s+Require\s+(?:Import|Export)\s+([^.]*(?:\.[A-Za-z_][\w.]*)*[^.]*)\.\s", re.S)


def dep_closure(start: list[str]) -> list[str]:
    """the .v files (relative to coq/) that the given files depend on, transitively, within this development"""
    seen, todo = [], list(start)
    while todo:
        f = todo.pop()
        if f in seen or not os.path.exists(os.path.join(COQ, f)):
            continue
        seen.append(f)
        src = strip_comments(open(os.path.join(COQ, f)).read())
        for m in re.finditer(r"From\s+Asynkit\s+Require\s+(?:Import|Export)\s+((?:[A-Za-z_][\w]*(?:\.[A-Za-z_][\w]*)*\s*)+)\.", src):
            for mod in m.group(1).split():
                todo.append("theories/" + mod.replace(".", "/") + ".v")
    return seen


def count_obligations(prop: Prop) -> tuple[int, int, list[str]]:
    n = d = 0
    names = []
    files = dep_closure([prop.props_v] + prop.theory_files)
    files = [f for f in files if f != prop.props_v]
    for f in files + [prop.props_v]:
        p = os.path.join(COQ, f)
        if not os.path.exists(p):
            continue
        src = strip_comments(open(p).read())
        found = STMT.findall(src)
        n += len(found)
        vo = p[:-2] + ".vo"
        if os.path.exists(vo) and os.path.getmtime(vo) >= os.path.getmtime(p):
            d += len(found)
        if f == prop.props_v:
            names = [x[1] for x in found]
    return n, d, names


def write_cases_file(path: str, stream: Stream, items: list[tuple[int, str, str]]):
    with open(path, "w") as f:
        f.write("From Coq Require Import QArith.\n")
        f.write("From Asynkit Require Import Base.Prelude Base.Obs.\n")
        for imp in stream.imports:
            f.write(f"From Asynkit Require Import {imp}.\n")
        f.write("Open Scope Z_scope.\n")
        ety = "obs" if stream.full_terms else "Z * Z"
        f.write(f"Definition cases : list (Z * (({stream.input_type}) * ({ety}))) := [\n")
        f.write(";\n".join(f" ({coqlit.z(i)}, ({inp}, {ob}))" for i, inp, ob in items))
        f.write("\n].\n")
        f.write(f"Definition run_ := ({stream.run}).\n")
        sfx = "" if stream.full_terms else "_h"
        f.write(f"Eval vm_compute in (mismatches{sfx} run_ cases).\n")
        f.write(f"Eval vm_compute in (model_outputs{sfx} run_ cases 3).\n")


def run_coq_shards(prop: Prop, stream: Stream, triples: list[tuple[int, str, str]],
                   tag: str) -> tuple[list[int], dict[int, str], list[str]]:
    """returns (mismatching indices, model output text per shard, errors)"""
    os.makedirs(CASES, exist_ok=True)
    paths = []
    # shards bounded by case count and by text size (Coq elaborates large literals superlinearly)
    chunks, cur, size = [], [], 0
    for tr in triples:
        n = len(tr[1]) + len(tr[2])
        if cur and (len(cur) >= SHARD or size + n > SHARD_BYTES):
            chunks.append(cur)
            cur, size = [], 0
        cur.append(tr)
        size += n
    if cur:
        chunks.append(cur)
    shard_of = {}
    for k, chunk in enumerate(chunks):
        p = os.path.join(CASES, f"{prop.pid}_{stream.name}_{tag}_{k}.v")
        write_cases_file(p, stream, chunk)
        paths.append(p)
        for tr in chunk:
            shard_of[tr[0]] = k
    procs = []
    mism: list[int] = []
    texts: dict[int, str] = {}
    errors: list[str] = []
    pending = list(enumerate(paths))
    running: list[tuple[int, str, subprocess.Popen]] = []

    def reap(block):
        nonlocal running
        still = []
        for k, p, pr in running:
            if block or pr.poll() is not None:
                pr.wait()
                pr._outf.seek(0)
                out, errt = pr._outf.read(), ""
                pr._outf.close()
                os.remove(p[:-2] + ".out")
                if pr.returncode != 0:
                    errors.append(f"coqc failed on {os.path.basename(p)}: {(out + errt)[-1500:]}")
                else:
                    flat = " ".join(out.split())
                    m = re.search(r"=\s*(\[.*?\])\s*:\s*list Z", flat)
                    if not m:
                        errors.append(f"unparsable coqc output for {p}: {flat[:300]}")
                    else:
                        body = m.group(1).strip("[]").strip()
                        if body:
                            idx = [int(x.replace("(", "").replace(")", "").replace("%Z", ""))
                                   for x in body.split(";")]
                            mism.extend(idx)
                            texts[k] = flat[m.end():][:200000]
                for ext in (".vo", ".glob", ".vok", ".vos"):
                    q = p[:-2] + ext
                    if os.path.exists(q):
                        os.remove(q)
                aux = os.path.join(os.path.dirname(p), "." + os.path.basename(p)[:-2] + ".aux")
                if os.path.exists(aux):
                    os.remove(aux)
                if pr.returncode == 0 and k not in texts:
                    os.remove(p)
            else:
                still.append((k, p, pr))
        running = still

    while pending or running:
        while pending and len(running) < NCPU:
            k, p = pending.pop(0)
            # output goes to a file: a pipe would fill up (and deadlock) on large model outputs
            outf = open(p[:-2] + ".out", "w+")
            pr = subprocess.Popen(["timeout", "900", "coqc", "-Q", "theories", "Asynkit", p],
                                  cwd=COQ, stdout=outf, stderr=subprocess.STDOUT, text=True)
            pr._outf = outf
            running.append((k, p, pr))
        reap(False)
        if running:
            time.sleep(0.05)
    return sorted(mism), texts, errors


# ----------------------------------------------------------------------------
# findings
# ----------------------------------------------------------------------------
def load_findings(pid: str):
    p = os.path.join(VERIF, "known_findings.json")
    if not os.path.exists(p):
        return []
    data = json.load(open(p))
    return [e for e in data.get("findings", []) if e.get("property") == pid]


def write_replay(pid: str, payload: dict) -> str:
    os.makedirs(REPLAYS, exist_ok=True)
    blob = json.dumps(payload, sort_keys=True, default=str)
    h = hashlib.sha1(blob.encode()).hexdigest()[:10]
    path = os.path.join(REPLAYS, f"{pid}-{h}.json")
    with open(path, "w") as f:
        json.dump(payload, f, indent=1, sort_keys=True, default=str)
    return path


# ----------------------------------------------------------------------------
# main driver
# ----------------------------------------------------------------------------
def run_impl_case(stream: Stream, case: dict):
    signal.signal(signal.SIGALRM, _alarm)
    signal.alarm(20)
    try:
        return stream.impl(case)
    except ImplTimeout:
        return [-999, 1]
    except BaseException as e:  # the runner itself must not die
        if isinstance(e, KeyboardInterrupt):
            raise
        if os.environ.get("VERIF_DEBUG"):
            traceback.print_exc()
        return [-999, 2, abs(hash(type(e).__name__)) % 1000]
    finally:
        signal.alarm(0)


def shrink_oracle_failure(stream: Stream, case: dict, msg: str, budget: int = 300):
    """greedy shrink of a case while the oracle keeps failing (implementation only)"""
    if stream.shrink is None:
        return case, msg
    cur, curmsg = case, msg
    improved = True
    while improved and budget > 0:
        improved = False
        for cand in stream.shrink(cur):
            budget -= 1
            if budget <= 0:
                break
            ob = run_impl_case(stream, cand)
            try:
                m = stream.oracle(cand, ob)
            except Exception as e:
                m = None
            if m:
                cur, curmsg = cand, m
                improved = True
                break
    return cur, curmsg


def run_check(prop: Prop, tier: str, seed: int) -> int:
    t0 = time.time()
    pid = prop.pid
    lines: list[str] = []          # VIOLATION / KNOWN-FINDING lines
    violations = 0
    known_lines: list[str] = []
    findings = load_findings(pid)
    known_ids = {e["id"]: e for e in findings if e.get("status") == "known"}
    buildlog: list[str] = []
    coverage: dict[str, Any] = {}
    no_input_reasons: list[dict] = []

    # 1. gate + build + theorem re-check
    phases = {}
    tp = time.time()
    bad = gate()
    build_ok = build(buildlog, prop) if not bad else False
    props_ok, props_out, axioms = (False, "", [])
    if build_ok:
        props_ok, props_out, axioms = check_props_file(prop)
    obligations, discharged, theorem_names = count_obligations(prop)
    if bad:
        no_input_reasons.append({"kind": "gate", "detail": bad})
    elif not build_ok:
        no_input_reasons.append({"kind": "coq-build-failed", "detail": buildlog[-1][-2000:]})
    elif not props_ok:
        no_input_reasons.append({"kind": "theorem-file-failed", "theorems": theorem_names,
                                 "detail": props_out[-2000:]})
    unexpected_axioms = [a for a in axioms if a not in prop.allowed_axioms]
    if unexpected_axioms:
        no_input_reasons.append({"kind": "assumptions-changed", "axioms": unexpected_axioms})

    phases["build_and_theorems_s"] = round(time.time() - tp, 2)
    # 2. correspondence + oracles
    rng = random.Random(seed)
    evaluations = 0
    distinct_nt: set[str] = set()
    samples = []
    stream_stats = {}
    oracle_failures: list[tuple[Stream, dict, Any, str]] = []
    corr_mismatch: list[tuple[Stream, dict, Any, str]] = []
    validated = 0
    from . import tripwire
    moved = tripwire.changed()
    for stream in prop.streams:
        srng = random.Random(rng.random())
        cases = []
        # corpus first
        cdir = os.path.join(VERIF, "corpus", pid)
        if os.path.isdir(cdir):
            for f in sorted(os.listdir(cdir)):
                if f.endswith(".json"):
                    c = json.load(open(os.path.join(cdir, f)))
                    if c.get("stream") == stream.name:
                        cases.append(c["case"])
        ncorpus = len(cases)
        cases.extend(stream.gen(srng, tier))
        if moved and tier == "quick":
            # the source moved since the model was last validated: a second, differently seeded pass
            seen = {json.dumps(c, sort_keys=True, default=str) for c in cases}
            for c in stream.gen(random.Random(srng.random()), tier):
                k = json.dumps(c, sort_keys=True, default=str)
                if k not in seen:
                    seen.add(k)
                    cases.append(c)
        triples = []
        obs_list = []
        nt = 0
        for i, case in enumerate(cases):
            ob = run_impl_case(stream, case)
            obs_list.append(ob)
            evaluations += 1
            try:
                msg = stream.oracle(case, ob)
            except Exception as e:
                msg = f"oracle crashed: {e!r} {traceback.format_exc()[-400:]}"
            if msg:
                oracle_failures.append((stream, case, ob, msg))
            if stream.nontrivial(case, ob):
                nt += 1
                distinct_nt.add(stream.name + ":" + hashlib.sha1(
                    json.dumps(case, sort_keys=True, default=str).encode()).hexdigest())
            try:
                triples.append((i, stream.to_coq(case),
                                coqlit.obs(ob) if stream.full_terms else coqlit.hash_lit(ob)))
            except Exception as e:
                corr_mismatch.append((stream, case, ob, f"cannot print case/observation: {e!r}"))
        if len(samples) < 6 and cases:
            for c, o in list(zip(cases, obs_list))[ncorpus:ncorpus + 2]:
                samples.append({"stream": stream.name, "input": stream.describe(c),
                                "impl_observation": o if len(json.dumps(o)) < 1500 else "(long)"})
        phases[f"{stream.name}_impl_s"] = round(time.time() - tp - sum(phases.values()), 2)
        mism, texts, errors = ([], {}, [])
        if build_ok and triples:
            mism, texts, errors = run_coq_shards(prop, stream, triples, f"{tier}{os.getpid()}")
            validated += len(triples) - len(mism)
        for e in errors:
            no_input_reasons.append({"kind": "correspondence-coqc-error", "stream": stream.name,
                                     "detail": e})
        model_obs = {}
        for k, txt in texts.items():
            # "= [(idx, OL [...]); (idx, OL ...)] : list (Z * obs)"
            for m in re.finditer(r"\((-?\d+)(?:%Z)?,\s*(O[IL])", txt):
                try:
                    model_obs[int(m.group(1))] = coqlit.parse_obs(txt[m.start(2):])
                except Exception:
                    pass
        for i in mism:
            detail = ""
            if i in model_obs:
                detail = " first difference: " + json.dumps(coqlit.first_diff(obs_list[i], model_obs[i]))
            corr_mismatch.append((stream, cases[i], obs_list[i],
                                  f"model != implementation (corr:{stream.corr_name or stream.run});" + detail))
        phases[f"{stream.name}_coq_s"] = round(time.time() - tp - sum(phases.values()), 2)
        stream_stats[stream.name] = {"cases": len(cases), "corpus": ncorpus, "nontrivial": nt,
                                     "mismatches": len(mism), "exhaustive": stream.exhaustive}

    # 3. verdicts
    reported: set[str] = set()

    def report_failure(stream, case, ob, msg, kind):
        nonlocal violations
        sig = prop.signature(stream.name, case, msg)
        if sig and sig in known_ids:
            line = f"KNOWN-FINDING: property={pid} {known_ids[sig]['what']}"
            if line not in known_lines:
                known_lines.append(line)
            return
        key = re.sub(r"\d+", "#", (sig or msg))[:80]      # one replay per kind of failure, at most 5 per run
        if key in reported or len(reported) >= 5:
            return
        reported.add(key)
        case2, msg2 = shrink_oracle_failure(stream, case, msg)
        path = write_replay(pid, {"property": pid, "kind": kind, "stream": stream.name, "seed": seed,
                                  "tier": tier, "case": case2, "failure": msg2,
                                  "impl_observation": run_impl_case(stream, case2),
                                  "replay_cmd": f"./check replay {pid}"})
        lines.append(f"VIOLATION property={pid} replay={path}")
        violations += 1

    for stream, case, ob, msg in oracle_failures[:50]:
        report_failure(stream, case, ob, msg, "oracle")
    if corr_mismatch and not oracle_failures:
        stream, case, ob, msg = min(corr_mismatch, key=lambda t: len(json.dumps(t[1], default=str)))
        path = write_replay(pid, {"property": pid, "kind": "correspondence", "stream": stream.name,
                                  "seed": seed, "tier": tier, "case": case, "impl_observation": ob,
                                  "failure": msg, "n_mismatches": len(corr_mismatch),
                                  "broken": f"corr:{stream.corr_name or stream.run}",
                                  "note": "model and implementation disagree; no oracle failure found on any generated input"})
        lines.append(f"VIOLATION property={pid} replay={path} no-failing-input-found")
        violations += 1
    elif corr_mismatch and oracle_failures and not lines and known_lines:
        # every oracle failure is known, but the model also disagrees with the code somewhere
        unknown = [t for t in corr_mismatch if not (prop.signature(t[0].name, t[1], t[3]) in known_ids)]
        if unknown:
            stream, case, ob, msg = unknown[0]
            path = write_replay(pid, {"property": pid, "kind": "correspondence", "stream": stream.name,
                                      "seed": seed, "case": case, "impl_observation": ob, "failure": msg,
                                      "broken": f"corr:{stream.corr_name or stream.run}"})
            lines.append(f"VIOLATION property={pid} replay={path} no-failing-input-found")
            violations += 1
    if no_input_reasons and not lines:
        path = write_replay(pid, {"property": pid, "kind": "proof-obligation", "seed": seed,
                                  "broken": no_input_reasons, "theorems": theorem_names})
        lines.append(f"VIOLATION property={pid} replay={path} no-failing-input-found")
        violations += 1

    # 4. property specific extras (self-checks of witnesses etc.)
    extra = {}
    if prop.extra is not None:
        try:
            extra = prop.extra(tier, random.Random(seed + 1)) or {}
        except Exception as e:
            extra = {"extra_error": repr(e)}

    # 5. evidence
    os.makedirs(EVID, exist_ok=True)
    coverage.update({
        "obligations": max(obligations, 1),
        "discharged": discharged if (build_ok and props_ok) else 0,
        "checker_cmd": f"make -C coq -j{NCPU} (full .vo build) && coqc -Q theories Asynkit {prop.props_v} (Print Assumptions) && coqc on generated coq/cases/{pid}_*.v (vm_compute correspondence)",
        "trusted_base": TRUSTED_BASE + [f"axioms reported by Print Assumptions for {prop.props_v}: "
                                        + (", ".join(axioms) if axioms else "none (Closed under the global context)")],
        "theorems": theorem_names,
        "print_assumptions": " ".join(props_out.split())[-1500:],
        "evaluations": max(evaluations, 1),
        "distinct_nontrivial": len(distinct_nt),
        "rule": prop.rule,
        "samples": samples or [{"note": "no cases generated"}],
        "traces_validated_against_impl": validated,
        "disagreements_checked": len(corr_mismatch),
        "streams": stream_stats,
        "exhaustive": all(s.exhaustive for s in prop.streams) if prop.streams else False,
        "known_findings_printed": known_lines,
        "phases_s": phases,
        "tripwire_changed_functions": moved[:40],
    })
    coverage.update(extra)
    ev = {
        "property_id": pid, "tier": tier, "seed": seed, "level": "proof",
        "coverage": coverage,
        "assumptions": prop.assumptions,
        "wall_s": round(time.time() - t0, 2),
        "violations": violations,
    }
    evdir = EVID
    if os.environ.get("ASYNKIT_SRC"):
        # a run against a scratch copy of the sources (seeded change, reverted fix): never overwrite
        # the evidence of the real tree
        evdir = os.path.join(VERIF, ".work", "evidence_scratch")
        os.makedirs(evdir, exist_ok=True)
    with open(os.path.join(evdir, f"{pid}.json"), "w") as f:
        json.dump(ev, f, indent=1, default=str)

    for l in known_lines:
        print(l)
    for l in lines:
        print(l)
    sys.stdout.flush()
    return 1 if violations else 0
