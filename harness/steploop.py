"""Single-step driver for real asyncio event loops (DESIGN Appendix A).

A `World` owns one real loop (stock SelectorEventLoop, asynkit's
SchedulingSelectorEventLoop or PrioritySelectorEventLoop), installs it as the
running loop of the current thread *without* entering run_forever, and lets
the harness execute exactly one ready handle at a time, with environment
actions (set_result, cancel, task_throw, ...) performed in between - "from
outside while the loop is stopped".  Time is virtual.

It also numbers every Future, Task and Handle in creation order so that
observations are canonical (ids by first appearance)."""
from __future__ import annotations

import asyncio
import asyncio.events
import heapq
import threading
from typing import Any, Optional

LOOPS = ("stock", "sched", "prio")


def make_loop(kind: str):
    if kind == "stock":
        return asyncio.SelectorEventLoop()
    if kind == "sched":
        from asynkit.loop.eventloop import SchedulingSelectorEventLoop
        return SchedulingSelectorEventLoop()
    if kind == "prio":
        from asynkit.experimental.priority import PrioritySelectorEventLoop
        return PrioritySelectorEventLoop()
    raise ValueError(kind)


class World:
    def __init__(self, kind: str = "stock", boost_factor: Optional[float] = 0.0):
        self.kind = kind
        self.loop = make_loop(kind)
        if kind == "prio" and boost_factor is not None:
            self.loop.ready_queue.priority_boost_factor = boost_factor
        self.vnow = 0.0
        self.loop.time = lambda: self.vnow            # virtual clock
        self.errors: list[dict] = []                  # what reached the loop's exception handler
        self.loop.set_exception_handler(lambda loop, ctx: self.errors.append(ctx))
        self.futures: list[Any] = []                  # creation order
        self.tasks: list[Any] = []
        self.handles: list[Any] = []
        self.timers: list[Any] = []
        self._fid: dict[int, int] = {}
        self._hid: dict[int, int] = {}
        self._tid: dict[int, int] = {}
        self.steps = 0
        loop = self.loop
        orig_cf = loop.create_future

        def create_future():
            f = orig_cf()
            self.reg_future(f)
            return f
        loop.create_future = create_future
        orig_cs = loop._call_soon

        def _call_soon(callback, args, context):
            h = orig_cs(callback, args, context)
            self._hid[id(h)] = len(self.handles)
            self.handles.append(h)
            return h
        loop._call_soon = _call_soon
        orig_ca = loop.call_at

        def call_at(when, callback, *args, context=None):
            h = orig_ca(when, callback, *args, context=context)
            self.timers.append(h)
            return h
        loop.call_at = call_at

    # -- registration -----------------------------------------------------
    def reg_future(self, f):
        if id(f) not in self._fid:
            self._fid[id(f)] = len(self.futures)
            self.futures.append(f)
        return self._fid[id(f)]

    def reg_task(self, t):
        if id(t) not in self._tid:
            self._tid[id(t)] = len(self.tasks)
            self.tasks.append(t)
        return self._tid[id(t)]

    def fid(self, f):
        return None if f is None else self._fid.get(id(f), -1)

    def tid(self, t):
        return None if t is None else self._tid.get(id(t), -1)

    def hid(self, h):
        return self._hid.get(id(h), -1)

    # -- running-loop context ----------------------------------------------
    def __enter__(self):
        asyncio.events._set_running_loop(self.loop)
        self.loop._thread_id = threading.get_ident()
        return self

    def __exit__(self, *exc):
        asyncio.events._set_running_loop(None)
        self.loop._thread_id = None
        try:
            # drop whatever is left without running it
            for t in list(self.tasks):
                if not t.done():
                    t._log_destroy_pending = False
            self.loop._ready.clear()
            self.loop._scheduled.clear()
            self.loop.close()
        except Exception:
            pass
        return False

    def running(self):
        """context manager that only installs/uninstalls the loop as the running loop
        (does not close it on exit)"""
        import contextlib

        @contextlib.contextmanager
        def cm():
            asyncio.events._set_running_loop(self.loop)
            self.loop._thread_id = threading.get_ident()
            try:
                yield self
            finally:
                asyncio.events._set_running_loop(None)
                self.loop._thread_id = None
        return cm()

    # -- the ready queue -------------------------------------------------------
    def ready_handles(self):
        """handles in the order they would run (does not disturb the queue)"""
        r = self.loop._ready
        if self.kind == "prio":
            pq = r._pq
            return [e.obj for e in sorted(pq._pq)]
        return list(r)

    def ready_len(self):
        return len(self.loop._ready)

    def begin_iteration(self):
        """what BaseEventLoop._run_once does before running handles: drop cancelled
        timers from the head, move due timers to the ready queue"""
        loop = self.loop
        while loop._scheduled and loop._scheduled[0]._cancelled:
            h = heapq.heappop(loop._scheduled)
            h._scheduled = False
        end = loop.time() + loop._clock_resolution
        while loop._scheduled:
            h = loop._scheduled[0]
            if h._when >= end:
                break
            h = heapq.heappop(loop._scheduled)
            h._scheduled = False
            loop._ready.append(h)

    def next_timer(self):
        live = [h._when for h in self.loop._scheduled if not h._cancelled]
        return min(live) if live else None

    def advance_to(self, when: float):
        self.vnow = max(self.vnow, when)

    def step(self) -> bool:
        """run exactly one ready handle (cancelled handles are popped and skipped,
        as _run_once does); returns False if the queue was empty"""
        r = self.loop._ready
        if not len(r):
            return False
        h = r.popleft()
        self.steps += 1
        if not h._cancelled:
            h._run()
        return True

    def run_iteration(self):
        """one full _run_once: due timers, then the handles that are ready *now*"""
        self.begin_iteration()
        n = len(self.loop._ready)
        for _ in range(n):
            self.step()

    def run_quiescent(self, max_steps: int = 10000, use_timers: bool = True) -> int:
        """run until no handle is ready (advancing virtual time to the next timer)"""
        n = 0
        while n < max_steps:
            self.begin_iteration()
            if len(self.loop._ready):
                self.step()
                n += 1
                continue
            nt = self.next_timer() if use_timers else None
            if nt is None:
                break
            self.advance_to(nt)
        return n

    # -- helpers -----------------------------------------------------------------
    def create_task(self, coro, *, py: bool = False, priority=None, name=None):
        loop = self.loop
        if py:
            t = asyncio.tasks._PyTask(coro, loop=loop, name=name)
        elif priority is not None:
            from asynkit.experimental.priority import PriorityTask
            t = PriorityTask(coro, loop=loop, name=name, priority=priority)
        else:
            t = asyncio.Task(coro, loop=loop, name=name)
        self.reg_task(t)
        return t
