import importlib
import json
import os
import sys

from . import framework


def main(argv):
    if not argv:
        print("usage: check <Cxx> [--tier quick|thorough] [--seed N] | check replay <file>")
        return 2
    if argv[0] == "replay":
        return replay(argv[1])
    pid = argv[0]
    tier = os.environ.get("VERIF_TIER", "quick")
    seed = int(os.environ.get("VERIF_SEED", "20260930"))
    i = 1
    while i < len(argv):
        if argv[i] == "--tier":
            tier = argv[i + 1]; i += 2
        elif argv[i] == "--seed":
            seed = int(argv[i + 1]); i += 2
        else:
            i += 1
    if tier not in ("quick", "thorough"):
        tier = "quick"
    mod = importlib.import_module(f"harness.props.{pid.lower()}")
    return framework.run_check(mod.PROP, tier, seed)


def replay(path):
    data = json.load(open(path))
    pid = data["property"]
    print(json.dumps({k: data[k] for k in data if k != "impl_observation"}, indent=1)[:4000])
    if "case" not in data:
        print("proof-obligation replay: rebuild with `make -C coq` and see `broken`")
        return 0
    mod = importlib.import_module(f"harness.props.{pid.lower()}")
    for s in mod.PROP.streams:
        if s.name == data["stream"]:
            ob = framework.run_impl_case(s, data["case"])
            print("implementation observation now:", json.dumps(ob)[:3000])
            print("oracle:", s.oracle(data["case"], ob))
    return 0


if __name__ == "__main__":
    sys.exit(main(sys.argv[1:]))
