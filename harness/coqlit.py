"""Gallina literal printers.  Observations are nested lists of ints
(Python) <-> [obs] (Coq: OI z | OL l)."""
from fractions import Fraction


def z(n):
    n = int(n)
    return f"({n})%Z" if n < 0 else f"{n}%Z"


def nat(n):
    assert 0 <= n < 5000, n
    return f"{int(n)}%nat"


def boolean(b):
    return "true" if b else "false"


def q(x):
    f = Fraction(x)
    return f"(Qmake ({f.numerator}) {f.denominator})"


def lst(items):
    return "[" + "; ".join(items) + "]"


def pair(a, b):
    return f"({a}, {b})"


def obs(o):
    if isinstance(o, bool):
        return f"OI {1 if o else 0}"
    if isinstance(o, int):
        return f"OI ({o})" if o < 0 else f"OI {o}"
    if isinstance(o, (list, tuple)):
        return "OL [" + "; ".join(obs(x) for x in o) + "]"
    raise TypeError(f"not an observation: {o!r}")


def qobs(x):
    """observation of an exact rational (floats must be exact dyadics)"""
    f = Fraction(x)
    return [f.numerator, f.denominator]


def opt(x, f=lambda v: v):
    return [] if x is None else [f(x)]


# ---- hashing of observations (mirror of Base/Obs.v) -------------------------
MASK = (1 << 61) - 1


def _tokz(z):
    return 3 + 2 * (-z - 1) if z < 0 else 2 + 2 * z


def _hstep(h, t):
    return (((h[0] << 5) + h[0] + t + 1) & MASK, ((h[1] << 7) + h[1] + t + 1) & MASK)


def _hfold(h, o):
    if isinstance(o, bool):
        o = int(o)
    if isinstance(o, int):
        return _hstep(h, _tokz(o))
    h = _hstep(h, 0)
    for x in o:
        h = _hfold(h, x)
    return _hstep(h, 1)


def obs_hash(o):
    return _hfold((7, 11), o)


def hash_lit(o):
    a, b = obs_hash(o)
    return f"({hex(a)}, {hex(b)})"


# ---- parser for observations printed by Coq ----------------------------------
import re as _re

_TOK = _re.compile(r"OL|OI|\[|\]|;|\(|\)|-?\d+|%Z|,")


def parse_obs(text):
    """parse the first obs term in `text` (as printed by Coq); returns (obs, rest)"""
    toks = _TOK.findall(text)
    pos = 0

    def term():
        nonlocal pos
        t = toks[pos]
        if t == "(":
            pos += 1
            r = term()
            while toks[pos] == "%Z":
                pos += 1
            assert toks[pos] == ")", toks[pos:pos + 5]
            pos += 1
            return r
        if t == "OI":
            pos += 1
            return term()
        if t == "OL":
            pos += 1
            assert toks[pos] == "["
            pos += 1
            out = []
            while toks[pos] != "]":
                out.append(term())
                if toks[pos] == ";":
                    pos += 1
            pos += 1
            return out
        if _re.fullmatch(r"-?\d+", t):
            pos += 1
            while pos < len(toks) and toks[pos] == "%Z":
                pos += 1
            return int(t)
        raise ValueError(f"unexpected token {t!r}")

    return term()


def first_diff(a, b, path=()):
    """path to the first difference between two observations"""
    if isinstance(a, list) and isinstance(b, list):
        for i, (x, y) in enumerate(zip(a, b)):
            d = first_diff(x, y, path + (i,))
            if d is not None:
                return d
        if len(a) != len(b):
            return {"path": list(path), "impl_len": len(a), "model_len": len(b)}
        return None
    if a != b:
        return {"path": list(path), "impl": a, "model": b}
    return None
