"""C18, wake-up protocol stream: real foreign threads call loop.call_soon_threadsafe() on a real priority
loop that runs in its own thread; every thread is single-stepped by a controller:

  * a foreign thread is parked at every source line of call_soon_threadsafe (sys.settrace in that thread
    only), so the controller can let the loop thread run between any two lines of a submission;
  * the loop thread is parked before each iteration (before the inbox is drained) and on entry to
    selector.select(); in select() it is let through only if the call would return (timeout 0, or the
    self-pipe is readable) - otherwise the loop is *blocked* and a loop token is a no-op.

A case is a schedule of tokens ["L"] | ["F", i] (thread i executes one line) | ["FF", i] (thread i runs
to completion).  After every token the observable state is recorded: inbox, ready queue, executed
callbacks, self-pipe readable, loop position, blocked, thread states.  The effects observed per token
(handle appended / self-pipe written) are translated into the tokens of the model (Queue/Wakeup.v):
TForeign i per effect, TStutter for a line without effect, TLoop."""
from __future__ import annotations

import select
import sys
import threading

from . import coqlit as L

WAIT = 20.0


class Stuck(Exception):
    pass


class Ctl:
    """one controlled thread: state running | parked | done, guarded by one condition variable"""

    def __init__(self, cv):
        self.cv = cv
        self.state = "running"
        self.where = None
        self.free = False

    def park(self, where):                       # called BY the controlled thread
        with self.cv:
            if self.free:
                return
            self.where = where
            self.state = "parked"
            self.cv.notify_all()
            while self.state == "parked" and not self.free:
                self.cv.wait()

    def finish(self):
        with self.cv:
            self.state = "done"
            self.cv.notify_all()

    def wait_settled(self):                      # called by the controller
        with self.cv:
            if not self.cv.wait_for(lambda: self.state != "running", WAIT):
                raise Stuck(f"thread did not reach a park point (at {self.where})")

    def advance(self):
        with self.cv:
            if self.state != "parked":
                return
            self.state = "running"
            self.cv.notify_all()
        self.wait_settled()

    def let_go(self):
        with self.cv:
            self.free = True
            self.cv.notify_all()


def run_schedule(case):
    import asyncio
    from asynkit.experimental.priority import PrioritySelectorEventLoop
    n = case["n"]
    fine = bool(case.get("fine"))
    loop = PrioritySelectorEventLoop()
    loop.ready_queue.priority_boost_factor = 0.0
    cv = threading.Condition()
    lctl = Ctl(cv)
    fctl = [Ctl(cv) for _ in range(n)]
    ran = []
    wakes = [0] * n
    tids = {}
    died = []

    # ---- instrumentation of this loop INSTANCE (no source hooks)
    orig_run_once = loop._run_once
    orig_select = loop._selector.select
    orig_write = loop._write_to_self
    sel_timeout = [None]

    def run_once():
        lctl.park(("drain",))
        orig_run_once()

    def sel(timeout=None):
        sel_timeout[0] = timeout
        lctl.park(("select",))
        if lctl.free:
            return orig_select(timeout)
        return orig_select(0)

    def write():
        i = tids.get(threading.get_ident())
        if i is not None:
            wakes[i] += 1
        return orig_write()

    loop._run_once = run_once
    loop._selector.select = sel
    loop._write_to_self = write

    def cb(i):
        ran.append(i)

    dcode = getattr(getattr(type(loop), "_drain_threadsafe_inbox", None), "__code__", None)

    def dlocal(frame, event, arg):
        if event == "line":
            lctl.park(("dline", frame.f_lineno))
        return dlocal

    def dtracer(frame, event, arg):
        if event == "call" and frame.f_code is dcode:
            return dlocal
        return None

    def loop_main():
        try:
            asyncio.set_event_loop(loop)
            if fine and dcode is not None:
                sys.settrace(dtracer)       # stream wakefine: the drain loop is single-stepped too
            loop.run_forever()
        except BaseException as e:     # an exception escaped from the loop
            died.append(type(e).__name__)
        finally:
            lctl.finish()

    code = type(loop).call_soon_threadsafe.__code__

    def foreign_main(i):
        tids[threading.get_ident()] = i
        ctl = fctl[i]

        def local(frame, event, arg):
            if event == "line":
                ctl.park(("line", frame.f_lineno))
            return local

        def tracer(frame, event, arg):
            if event == "call" and frame.f_code is code:
                return local
            return None
        ctl.park(("start",))
        sys.settrace(tracer)
        try:
            loop.call_soon_threadsafe(cb, i)
        except BaseException as e:
            died.append("foreign:" + type(e).__name__)
        finally:
            sys.settrace(None)
            ctl.finish()

    lt = threading.Thread(target=loop_main, daemon=True)
    fts = [threading.Thread(target=foreign_main, args=(i,), daemon=True) for i in range(n)]
    lt.start()
    lctl.wait_settled()
    for t, c in zip(fts, fctl):
        t.start()
        c.wait_settled()

    def hid(h):
        a = getattr(h, "_args", None)
        if a and len(a) == 1 and isinstance(a[0], int) and getattr(h, "_callback", None) is cb:
            return a[0]
        return None

    def inbox_ids():
        return [x for x in (hid(h) for h in list(getattr(loop, "_threadsafe_inbox", ()))) if x is not None]

    def ready_ids():
        return [x for x in (hid(h) for h in list(loop._ready)) if x is not None]

    def readable():
        r, _, _ = select.select([loop._ssock], [], [], 0)
        return bool(r)

    def loop_pos():
        return 0 if (lctl.where or ("drain",))[0] in ("drain", "dline") else 1

    def is_blocked():
        if lctl.state != "parked" or loop_pos() != 1:
            return False
        return not (sel_timeout[0] == 0 or readable())

    appended = [False] * n

    def fstate(i):
        if not appended[i]:
            return 3 if fctl[i].state == "done" else 0
        if wakes[i] > 0:
            return 2
        return 3 if fctl[i].state == "done" else 1     # 3: finished without having written to the self-pipe

    def observe():
        return [inbox_ids(), ready_ids(), list(ran), int(readable()), loop_pos(), int(is_blocked()),
                [fstate(i) for i in range(n)]]

    mtoks = []
    obs = []
    try:
        for tok in case["toks"]:
            if tok[0] == "L":
                p0, in0 = loop_pos(), inbox_ids()
                if lctl.state == "parked" and not is_blocked():
                    lctl.advance()
                if fine and p0 == 0:
                    # one source line of the drain: a stutter unless it moved a handle or ended the drain
                    rd = ready_ids()
                    moved = sum(1 for h in in0 if h in rd)
                    mtoks.append(["S"] if (moved == 0 and loop_pos() == 0) else ["L"])
                else:
                    mtoks.append(["L"])
                obs.append(observe())
                continue
            i = tok[1]
            c = fctl[i]
            whole = tok[0] == "FF"
            while True:
                w0 = wakes[i]
                if c.state == "parked":
                    c.advance()
                effects = 0
                if not appended[i] and (i in inbox_ids() or i in ready_ids() or i in ran):
                    appended[i] = True
                    effects += 1
                if wakes[i] > w0:
                    effects += 1
                if effects == 0:
                    mtoks.append(["S"])
                    obs.append(observe())
                else:
                    for _ in range(effects):
                        mtoks.append(["F", i])
                    # the model records one observation per token: repeat the state for a double effect
                    o = observe()
                    if effects == 2:
                        obs.append(None)        # filled in below (intermediate state is not observable)
                    obs.append(o)
                if not whole or c.state == "done":
                    break
        final = observe()
    finally:
        # tear down: everybody runs free, the loop is stopped from outside
        for c in fctl:
            c.let_go()
        lctl.let_go()
        for t in fts:
            t.join(WAIT)
        try:
            loop._run_once = orig_run_once
            loop._selector.select = orig_select
            loop._write_to_self = orig_write
            loop.call_soon_threadsafe(loop.stop)
            orig_write()
        except Exception:
            pass
        lt.join(WAIT)
        try:
            if not loop.is_running():
                loop._ready.clear()
                loop.close()
        except Exception:
            pass
    case["_mtoks"] = mtoks
    return {"obs": obs, "final": final, "died": died}


def impl(case):
    r = run_schedule(case)
    obs = r["obs"]
    # a line that both appended and woke (never the case for the current source) has no observable
    # intermediate state: drop the placeholder and the corresponding model observation is skipped too
    if any(o is None for o in obs):
        return [-998, 0]
    return [obs, [1 if r["died"] else 0]]


def to_coq(case):
    def tk(t):
        return "TLoop" if t[0] == "L" else "TStutter" if t[0] == "S" else f"(TForeign {L.nat(t[1])})"
    return f"(mkWI {L.nat(case['n'])} [{'; '.join(tk(t) for t in case.get('_mtoks', []))}])"


def oracle(case, ob):
    """independent of the model: exactly-once, nothing stranded, no exception out of the loop"""
    if not (isinstance(ob, list) and len(ob) == 2 and isinstance(ob[0], list)):
        return f"runner failed: {ob!r}"[:200]
    obs, (died,) = ob
    if died:
        return "an exception escaped from the event loop or from call_soon_threadsafe"
    n = case["n"]
    for k, o in enumerate(obs):
        inbox, ready, ran, wake, pos, blocked, fst = o
        if len(set(ran)) != len(ran):
            return f"after token {k}: a callback ran twice: {ran}"
        everywhere = inbox + ready + ran
        if len(set(everywhere)) != len(everywhere):
            return f"after token {k}: a handle is queued twice: inbox {inbox} ready {ready} ran {ran}"
        if blocked and all(s in (2, 3) for s in fst) and (inbox or ready):
            return (f"after token {k}: every submission has returned and the loop is blocked in select() with an "
                    f"unreadable self-pipe, but callbacks {inbox + ready} were never run (lost wake-up)")
    if obs:
        inbox, ready, ran, wake, pos, blocked, fst = obs[-1]
        if sorted(ran) != list(range(n)):
            return f"at the end of the schedule the callbacks that ran are {ran}, submitted 0..{n - 1}"
    return None


def suffix(n, fine=False):
    return [["FF", i] for i in range(n)] + [["L"]] * ((16 + 6 * n) if fine else 4)


def gen_fine(rng, tier):
    """the loop thread is ALSO single-stepped through the source lines of _drain_threadsafe_inbox
    (model: Queue/WakeupFine.v, one handle per drain step): k submissions are complete when the drain
    starts, a late one is performed - whole, or line by line with loop steps in between - after every
    number j of loop lines"""
    for k in (1, 2, 3):
        n = k + 1
        pre = [["FF", i] for i in range(k)]
        for j in range(0, 2 * k + 8):
            yield {"n": n, "fine": 1, "toks": pre + [["L"]] * j + [["FF", k]] + suffix(n, True)}
        for j in range(0, 2 * k + 6, 1 if tier != "quick" else 2):
            for a in (3, 5, 7, 8):
                for m in (1, 2, 3):
                    toks = pre + [["L"]] * j + [["F", k]] * a + [["L"]] * m
                    yield {"n": n, "fine": 1, "toks": toks + suffix(n, True)}
    for _ in range(100 if tier == "quick" else 1200):
        n = rng.randint(1, 3)
        toks = []
        for _ in range(rng.randint(6, 48)):
            r = rng.random()
            toks.append(["L"] if r < 0.55 else ["F", rng.randrange(n)] if r < 0.9 else ["FF", rng.randrange(n)])
        yield {"n": n, "fine": 1, "toks": toks + suffix(n, True)}


def gen(rng, tier):
    # enumerated: thread 0 submits completely at every loop phase, thread 1 is stopped after j lines, the
    # loop gets m tokens, thread 1 finishes
    lines = 9
    for k0 in range(3):
        for j in range(lines + 1):
            for m in range(6):
                toks = [["L"]] * k0 + [["FF", 0]] + [["F", 1]] * j + [["L"]] * m
                yield {"n": 2, "toks": toks + suffix(2)}
    # both submissions interleaved line by line with the loop
    for j0 in (1, 3, 5, 7) if tier == "quick" else range(1, lines):
        for j1 in (2, 4, 6) if tier == "quick" else range(1, lines):
            for m in (1, 2, 4):
                toks = [["F", 0]] * j0 + [["F", 1]] * j1 + [["L"]] * m + [["F", 0]] * 2 + [["L"]] * 2
                yield {"n": 2, "toks": toks + suffix(2)}
    for _ in range(150 if tier == "quick" else 1500):
        n = rng.randint(1, 3)
        toks = []
        for _ in range(rng.randint(4, 36)):
            r = rng.random()
            toks.append(["L"] if r < 0.4 else ["F", rng.randrange(n)] if r < 0.93 else ["FF", rng.randrange(n)])
        yield {"n": n, "toks": toks + suffix(n)}


def nontrivial(case, ob):
    return case["n"] >= 2 and len(case["toks"]) >= 8


def shrink(case):
    toks = case["toks"]
    fine = bool(case.get("fine"))
    sfx = suffix(case["n"], fine)
    body = toks[:-len(sfx)]
    for k in range(len(body)):
        c = {"n": case["n"], "toks": body[:k] + body[k + 1:] + sfx}
        if fine:
            c["fine"] = 1
        yield c
