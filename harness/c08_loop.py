"""C08, stream `loop`: multi-task programs on the three real event loops.

A case is {"kind": "stock"|"sched"|"prio", "scripts": [[op...]...], "nev": n,
"mains": [script index...], "fuel": steps}.  Every task runs one script; the
operations are (targets `t` = index of a task in creation order, `s` = script index):

  ["sleep"]                       await asyncio.sleep(0)
  ["sleep_insert", p]             await asynkit.sleep_insert(p)
  ["switch", t, p|None]           await asynkit.task_switch(tasks[t], insert_pos=p)
  ["reinsert", t, p]              asynkit.task_reinsert(tasks[t], p)
  ["call_pos", p, n]              call_pos(p, log, n)
  ["call_soon", n]                loop.call_soon(log, n)
  ["call_pos_reinsert", p, t, q]  call_pos(p, asynkit.task_reinsert, tasks[t], q)
  ["create", s] ["descend", s] ["start", s]   create_task / create_task_descend / create_task_start
  ["find", t, rm]                 ready_find(tasks[t], remove=rm)   (a removed handle is `held`)
  ["remove", t]                   h = ready_find(tasks[t]); ready_remove(h)   (h is `held`)
  ["remove_held"]                 ready_remove(held)   -> ValueError, it is not in the queue
  ["insert"]                      ready_insert(held)
  ["wait", e] ["set", e]          asyncio.Event
  ["items"]                       list(get_ready_queue())

The loop is single-stepped with steploop.World; after every handle the
observation is [executed handle id, log of the step, ready_len(), [[handle id,
task id]...] in run order, number of exceptions that reached the loop's
exception handler, done flag of every task, held handle, internal state of the
priority queue]."""
from __future__ import annotations

import asyncio
import itertools
import random

from . import coqlit as L
from .steploop import World

KINDS = ("stock", "sched", "prio")
INPUT_TYPE = "Z * list (list op) * nat * list nat * nat"


# ----------------------------------------------------------------------------
# implementation runner
# ----------------------------------------------------------------------------
class Env:
    def __init__(self, w, scripts, nev):
        self.w = w
        self.scripts = scripts
        self.events = [asyncio.Event() for _ in range(nev)]
        self.held = None
        self.steplog = []

    def log(self, entry):
        self.steplog.append(entry)

    def cb(self, n):
        self.steplog.append([100, n])


async def body(env: Env, sidx: int):
    import asynkit
    from asynkit.loop import extensions as X
    w = env.w
    loop = w.loop
    me = w.tid(asyncio.current_task())
    log = env.log

    def target(t):
        return w.tasks[t] if 0 <= t < len(w.tasks) else None

    for op in env.scripts[sidx]:
        k = op[0]
        try:
            if k == "sleep":
                log([1, me])
                await asyncio.sleep(0)
            elif k == "sleep_insert":
                log([2, me, op[1]])
                await asynkit.sleep_insert(op[1])
            elif k == "switch":
                log([3, me, op[1], -1 if op[2] is None else op[2]])
                t = target(op[1])
                if t is None:
                    log([97, me])
                else:
                    await asynkit.task_switch(t, insert_pos=op[2])
            elif k == "reinsert":
                log([4, me, op[1], op[2]])
                t = target(op[1])
                if t is None:
                    log([97, me])
                else:
                    asynkit.task_reinsert(t, op[2])
                    log([90, 0])
            elif k == "call_pos":
                log([5, me, op[1], op[2]])
                h = X.call_pos(op[1], env.cb, op[2])
                log([90, w.hid(h)])
            elif k == "call_soon":
                log([6, me, op[1]])
                h = loop.call_soon(env.cb, op[1])
                log([90, w.hid(h)])
            elif k == "call_pos_reinsert":
                log([7, me, op[1], op[2], op[3]])
                t = target(op[2])
                if t is None:
                    log([97, me])
                else:
                    h = X.call_pos(op[1], asynkit.task_reinsert, t, op[3])
                    log([90, w.hid(h)])
            elif k == "create":
                log([8, me, op[1]])
                if 0 <= op[1] < len(env.scripts):
                    t = asyncio.create_task(body(env, op[1]))
                    log([90, w.tid(t)])
                else:
                    log([97, me])
            elif k == "descend":
                log([9, me, op[1]])
                if 0 <= op[1] < len(env.scripts):
                    await asynkit.create_task_descend(body(env, op[1]))
                else:
                    log([97, me])
            elif k == "start":
                log([10, me, op[1]])
                if 0 <= op[1] < len(env.scripts):
                    await asynkit.create_task_start(body(env, op[1]))
                else:
                    log([97, me])
            elif k == "find":
                log([11, me, op[1], 1 if op[2] else 0])
                t = target(op[1])
                if t is None:
                    log([97, me])
                else:
                    h = X.ready_find(t, remove=bool(op[2]))
                    if h is not None and op[2]:
                        env.held = h
                    log([90, -1 if h is None else w.hid(h)])
            elif k == "remove":
                log([12, me, op[1]])
                t = target(op[1])
                if t is None:
                    log([97, me])
                else:
                    h = X.ready_find(t)
                    if h is None:
                        log([90, -1])
                    else:
                        X.ready_remove(h)
                        env.held = h
                        log([90, w.hid(h)])
            elif k == "remove_held":
                log([13, me])
                if env.held is None:
                    log([90, -1])
                else:
                    X.ready_remove(env.held)
                    log([90, w.hid(env.held)])
            elif k == "insert":
                log([14, me])
                if env.held is None:
                    log([90, -1])
                else:
                    h = env.held
                    X.ready_insert(h)
                    env.held = None
                    log([90, w.hid(h)])
            elif k == "wait":
                log([15, me, op[1]])
                if 0 <= op[1] < len(env.events):
                    await env.events[op[1]].wait()
                else:
                    log([97, me])
            elif k == "set":
                log([16, me, op[1]])
                if 0 <= op[1] < len(env.events):
                    env.events[op[1]].set()
                else:
                    log([97, me])
            elif k == "items":
                log([17, me])
                log([91, [w.hid(h) for h in X.get_ready_queue()]])
            else:
                raise RuntimeError(f"unknown op {op}")
        except ValueError:
            log([98, me])
    log([99, me])


def prio_internal(w):
    q = w.loop.ready_queue
    arr = []
    for e in q._pq._pq:
        pv = e.priority
        arr.append([pv.priority_class, L.qobs(pv.base_priority), L.qobs(pv.priority_boost),
                    pv.inserted_at, e.sequence, w.hid(e.obj)])
    return [q.n_inserted, q.n_removed, q._pq._sequence, arr]


def snapshot(w: World, env: Env, executed: int):
    from asynkit.loop import extensions as X
    order = []
    for h in w.ready_handles():
        t = X.task_from_handle(h, w.loop)
        order.append([w.hid(h), -1 if t is None else w.tid(t)])
    return [executed, env.steplog, X.ready_len(w.loop), order, len(w.errors),
            [1 if t.done() else 0 for t in w.tasks],
            -1 if env.held is None else w.hid(env.held),
            prio_internal(w) if w.kind == "prio" else []]


def impl_loop(case):
    with World(case["kind"], boost_factor=0.0) as w:
        loop = w.loop

        def factory(loop_, coro, **kw):
            t = asyncio.Task(coro, loop=loop_, **kw)
            w.reg_task(t)
            return t
        loop.set_task_factory(factory)
        env = Env(w, case["scripts"], case["nev"])
        for s in case["mains"]:
            loop.create_task(body(env, s))
        out = [snapshot(w, env, -1)]
        for _ in range(case["fuel"]):
            hs = w.ready_handles()
            if not hs:
                break
            env.steplog = []
            hid = w.hid(hs[0])
            w.step()
            out.append(snapshot(w, env, hid))
        bad = [repr(e.get("exception")) for e in w.errors if not isinstance(e.get("exception"), ValueError)]
        if bad:
            out.append([-5, len(bad)])
        for t in w.tasks:
            if t.done() and not t.cancelled() and t.exception() is not None:
                out.append([-6, w.tid(t)])
            elif not t.done():
                # the run was cut short: drop the coroutine quietly (no "never awaited" warning)
                t._log_destroy_pending = False
                try:
                    t.get_coro().close()
                except BaseException:
                    pass
        return out


# ----------------------------------------------------------------------------
# Gallina printer
# ----------------------------------------------------------------------------
def coq_op(op):
    k = op[0]
    n = L.nat
    if k == "sleep":
        return "OSleep"
    if k == "sleep_insert":
        return f"OSleepInsert {n(op[1])}"
    if k == "switch":
        return f"OSwitch {n(op[1])} " + ("None" if op[2] is None else f"(Some {n(op[2])})")
    if k == "reinsert":
        return f"OReinsert {n(op[1])} {n(op[2])}"
    if k == "call_pos":
        return f"OCallPos {n(op[1])} {L.z(op[2])}"
    if k == "call_soon":
        return f"OCallSoon {L.z(op[1])}"
    if k == "call_pos_reinsert":
        return f"OCallPosReins {n(op[1])} {n(op[2])} {n(op[3])}"
    if k == "create":
        return f"OCreate {n(op[1])}"
    if k == "descend":
        return f"ODescend {n(op[1])}"
    if k == "start":
        return f"OStart {n(op[1])}"
    if k == "find":
        return f"OFind {n(op[1])} {L.boolean(op[2])}"
    if k == "remove":
        return f"ORemove {n(op[1])}"
    if k == "wait":
        return f"OWait {n(op[1])}"
    if k == "set":
        return f"OSet {n(op[1])}"
    return {"remove_held": "ORemoveHeld", "insert": "OInsert", "items": "OItems"}[k]


def coq_loop(case):
    scripts = L.lst([L.lst([coq_op(op) for op in s]) for s in case["scripts"]])
    return ("(" + L.z(KINDS.index(case["kind"])) + ", " + scripts + ", " + L.nat(case["nev"]) + ", "
            + L.lst([L.nat(m) for m in case["mains"]]) + ", " + L.nat(case["fuel"]) + ")")


# ----------------------------------------------------------------------------
# the property oracle: an independent plain-list model of what C08 states
# ----------------------------------------------------------------------------
class Ref:
    """The ready queue as a Python list of handle ids.  Only the *property* is
    encoded: call_soon appends; a positional insert puts the entry after exactly
    min(pos, len) earlier entries; moving a task's entry = remove it, insert it;
    the loop runs the head; a ValueError changes nothing."""

    def __init__(self, case):
        self.scripts = case["scripts"]
        self.q = []                # handle ids, run order
        self.kind = {}             # hid -> ("step"|"wake", tid) | ("cb", n) | ("reins", t, p)
        self.nh = 0
        self.pc = []               # per task: [script index, next op index]
        self.done = []
        self.events = [[False, []] for _ in range(case["nev"])]
        self.held = None
        self.errors = 0
        self.ran = {}              # hid -> times executed
        self.removed = set()
        self.log = []

    # -- primitives -------------------------------------------------------
    def new(self, kind):
        h = self.nh; self.nh += 1; self.kind[h] = kind
        return h

    def soon(self, kind):
        h = self.new(kind); self.q.append(h)
        return h

    def at(self, pos, kind):
        h = self.new(kind); self.q.insert(min(pos, len(self.q)), h)
        return h

    def task_of(self, h):
        k = self.kind[h]
        return k[1] if k[0] in ("step", "wake") else None

    def find(self, t):
        idx = [i for i, h in enumerate(self.q) if self.task_of(h) == t]
        return idx[-1] if idx else None

    def reinsert(self, t, pos):
        i = self.find(t)
        if i is None:
            return False
        h = self.q.pop(i)
        self.q.insert(min(pos, len(self.q)), h)
        return True

    def spawn(self, sidx):
        t = len(self.pc)
        self.pc.append([sidx, 0]); self.done.append(0)
        self.soon(("step", t))
        return t

    # -- a task step --------------------------------------------------------
    def run_task(self, me):
        lg = self.log.append
        sidx, i = self.pc[me]
        script = self.scripts[sidx]
        while True:
            if i >= len(script):
                lg([99, me]); self.done[me] = 1; self.pc[me][1] = i
                return
            op = script[i]; i += 1
            self.pc[me][1] = i
            k = op[0]

            def yield_():
                self.soon(("step", me))

            def sleep_insert(p):
                self.at(0, ("reins", me, p)); yield_()
            if k == "sleep":
                lg([1, me]); yield_(); return
            if k == "sleep_insert":
                lg([2, me, op[1]]); sleep_insert(op[1]); return
            if k == "switch":
                lg([3, me, op[1], -1 if op[2] is None else op[2]])
                if op[1] >= len(self.pc):
                    lg([97, me]); continue
                if not self.reinsert(op[1], 0):
                    lg([98, me]); continue
                if op[2] is None:
                    yield_()
                else:
                    sleep_insert(op[2])
                return
            if k == "reinsert":
                lg([4, me, op[1], op[2]])
                if op[1] >= len(self.pc):
                    lg([97, me])
                elif self.reinsert(op[1], op[2]):
                    lg([90, 0])
                else:
                    lg([98, me])
                continue
            if k == "call_pos":
                lg([5, me, op[1], op[2]]); lg([90, self.at(op[1], ("cb", op[2]))]); continue
            if k == "call_soon":
                lg([6, me, op[1]]); lg([90, self.soon(("cb", op[1]))]); continue
            if k == "call_pos_reinsert":
                lg([7, me, op[1], op[2], op[3]])
                if op[2] >= len(self.pc):
                    lg([97, me])
                else:
                    lg([90, self.at(op[1], ("reins", op[2], op[3]))])
                continue
            if k in ("create", "descend", "start"):
                lg([{"create": 8, "descend": 9, "start": 10}[k], me, op[1]])
                if op[1] >= len(self.scripts):
                    lg([97, me]); continue
                t = self.spawn(op[1])
                if k == "create":
                    lg([90, t]); continue
                if k == "start":
                    yield_(); return
                # descend: the new task runs next, then the caller
                self.reinsert(t, 0); sleep_insert(1); return
            if k == "find":
                lg([11, me, op[1], 1 if op[2] else 0])
                if op[1] >= len(self.pc):
                    lg([97, me]); continue
                j = self.find(op[1])
                if j is None:
                    lg([90, -1])
                else:
                    h = self.q[j]
                    if op[2]:
                        del self.q[j]; self.held = h; self.removed.add(h)
                    lg([90, h])
                continue
            if k == "remove":
                lg([12, me, op[1]])
                if op[1] >= len(self.pc):
                    lg([97, me]); continue
                j = self.find(op[1])
                if j is None:
                    lg([90, -1])
                else:
                    h = self.q.pop(j); self.held = h; self.removed.add(h); lg([90, h])
                continue
            if k == "remove_held":
                lg([13, me])
                if self.held is None:
                    lg([90, -1])
                elif self.held in self.q:
                    self.q.remove(self.held); lg([90, self.held])
                else:
                    lg([98, me])
                continue
            if k == "insert":
                lg([14, me])
                if self.held is None:
                    lg([90, -1])
                else:
                    self.q.append(self.held); self.removed.discard(self.held)
                    lg([90, self.held]); self.held = None
                continue
            if k == "wait":
                lg([15, me, op[1]])
                if op[1] >= len(self.events):
                    lg([97, me]); continue
                ev = self.events[op[1]]
                if ev[0]:
                    continue
                ev[1].append(me); return
            if k == "set":
                lg([16, me, op[1]])
                if op[1] >= len(self.events):
                    lg([97, me]); continue
                ev = self.events[op[1]]
                if not ev[0]:
                    ev[0] = True
                    for t in ev[1]:
                        self.soon(("wake", t))
                    ev[1] = []
                continue
            if k == "items":
                lg([17, me]); lg([91, list(self.q)]); continue
            raise RuntimeError(op)

    def step(self):
        h = self.q.pop(0)
        self.ran[h] = self.ran.get(h, 0) + 1
        self.log = []
        k = self.kind[h]
        if k[0] in ("step", "wake"):
            self.run_task(k[1])
        elif k[0] == "cb":
            self.log.append([100, k[1]])
        else:
            if not self.reinsert(k[1], k[2]):
                self.errors += 1
        return h


def oracle_loop(case, ob):
    if not isinstance(ob, list) or not ob or not isinstance(ob[0], list) or len(ob[0]) != 8:
        return f"runner failed: {ob!r}"[:300]
    ref = Ref(case)
    for s in case["mains"]:
        ref.spawn(s)
    for n, snap in enumerate(ob):
        if len(snap) == 2 and snap[0] in (-5, -6):
            return f"unexpected exception escaped (code {snap[0]}, {snap[1]})"
        executed, log, rlen, order, nerr, done, held, _internal = snap
        where = f"after step {n} (handle {executed})"
        if n > 0:
            if not ref.q:
                return f"{where}: a handle ran although the list model's queue is empty"
            if executed != ref.q[0]:
                return (f"{where}: the loop ran handle {executed}, but list semantics put handle "
                        f"{ref.q[0]} at the head (queue {ref.q})")
            ref.step()
            if log != ref.log:
                return f"{where}: step log {log}, list model {ref.log}"
        if rlen != len(ref.q):
            return f"{where}: ready_len() = {rlen}, list model has {len(ref.q)} entries"
        hids = [h for h, _ in order]
        if hids != ref.q:
            return f"{where}: ready queue order {hids}, list model {ref.q}"
        owners = [t for _, t in order]
        want = [(-1 if ref.task_of(h) is None else ref.task_of(h)) for h in ref.q]
        if owners != want:
            return f"{where}: handle owners {owners}, list model {want}"
        if nerr != ref.errors:
            return f"{where}: {nerr} exceptions reached the loop, list model {ref.errors}"
        if done != ref.done:
            return f"{where}: done flags {done}, list model {ref.done}"
        if held != (-1 if ref.held is None else ref.held):
            return f"{where}: held handle {held}, list model {ref.held}"
    # exactly once: every handle created was run at most once, and exactly once unless it is
    # still queued, held outside the queue, or the run was cut short
    for h, c in ref.ran.items():
        if c != 1:
            return f"handle {h} was executed {c} times"
    if len(ob) - 1 < case["fuel"] and ref.q:
        return f"the loop stopped with a non-empty queue {ref.q}"
    return None


# ----------------------------------------------------------------------------
# generators
# ----------------------------------------------------------------------------
def mk(kind, scripts, mains, fuel, nev=1):
    return {"kind": kind, "scripts": scripts, "nev": nev, "mains": mains, "fuel": fuel}


def positional_ops(ntasks, maxpos):
    """the alphabet of single operations used by the exhaustive part"""
    ops = [["sleep"]]
    for p in range(maxpos + 1):
        ops.append(["sleep_insert", p])
        ops.append(["call_pos", p, 7])
    for t in range(ntasks):
        for p in [None] + list(range(maxpos + 1)):
            ops.append(["switch", t, p])
        for p in range(maxpos + 1):
            ops.append(["reinsert", t, p])
    ops.append(["call_soon", 8])
    return ops


def gen_exhaustive(tier):
    """Main tasks 0..4 run scripts [probe, filler, blocker, quickie, filler].  Task 0 sleeps once,
    so that when it performs the probed operations task 1 and 4 are runnable (queue length 2),
    task 2 is blocked on event 0, task 3 is done and task 0 is the caller itself.  Every pair
    of operations from the alphabet (thorough; quick: every operation before and after 8 representative ones) is probed, then everything drains."""
    filler = [["sleep"], ["sleep"], ["sleep"]]
    blocker = [["wait", 0], ["sleep"]]
    quickie = []                       # done after its first step
    child = [["sleep"]]
    alpha = positional_ops(4, 3)
    extra = [["create", 5], ["descend", 5], ["start", 5], ["descend", 3], ["find", 1, True], ["remove", 4],
             ["insert"], ["remove_held"], ["set", 0], ["items"], ["call_pos_reinsert", 0, 1, 1],
             ["call_pos_reinsert", 1, 2, 0], ["find", 2, False], ["wait", 0]]
    full = alpha + extra
    if tier == "quick":
        # every operation of the alphabet before and after each of a few representative ones
        rep = [["sleep_insert", 1], ["switch", 1, None], ["switch", 4, 1], ["reinsert", 4, 0],
               ["call_pos", 0, 7], ["find", 1, True], ["insert"], ["descend", 5]]
        combos = [(a,) for a in full]
        seen = set()
        for a in full:
            for b in rep:
                for c in ((a, b), (b, a)):
                    key = repr(c)
                    if key not in seen:
                        seen.add(key); combos.append(c)
    else:
        combos = itertools.product(full, repeat=2)
    for combo in combos:
        yield [[["sleep"]] + [list(o) for o in combo] + [["sleep"]], filler, blocker, quickie, filler, child]


def gen_loop(rng: random.Random, tier: str):
    # 1. hand-written shapes, on every loop
    shapes = [
        # task_switch with every insert_pos among 3 runnable others
        *[[[["switch", 2, p], ["call_soon", 1]], [["sleep"], ["sleep"]], [["sleep"], ["sleep"]],
           [["sleep"], ["sleep"]]] for p in (None, 0, 1, 2, 3, 4, 5)],
        # nested descend (depth first)
        [[["descend", 1], ["call_soon", 1]], [["descend", 2], ["sleep"]], [["descend", 3], ["sleep"]], [["sleep"]]],
        # descend whose child schedules positionally in its first step
        [[["descend", 1], ["call_soon", 1]], [["call_pos", 0, 5], ["sleep"]]],
        [[["descend", 1], ["call_soon", 1]], [["sleep_insert", 0], ["sleep"]]],
        [[["start", 1], ["call_soon", 1]], [["sleep"]]],
    ]
    for kind in KINDS:
        for sc in shapes:
            mains = [0]
            if sc[0][0][0] == "switch":
                mains = [0, 1, 2, 3]
            yield mk(kind, sc, mains, 40)
    # 2. bounded-exhaustive
    for sc in gen_exhaustive(tier):
        for kind in KINDS:
            yield mk(kind, sc, [0, 1, 2, 3, 4], 40)
    # 3. crowded queues (7..9 tasks)
    for i in range(60 if tier == "quick" else 800):
        sc, mains, nev = crowd_program(rng)
        for kind in KINDS:
            yield mk(kind, sc, mains, rng.choice([40, 70]), nev)
    # 4. random programs
    nrand = 200 if tier == "quick" else 3000
    for i in range(nrand):
        sc, mains, nev = random_program(rng, big=(tier != "quick" and i % 4 == 0))
        fuel = rng.choice([25, 40, 60])
        for kind in KINDS:
            yield mk(kind, sc, mains, fuel, nev)


def crowd_program(rng):
    """7..9 tasks that keep pulling one another out of the MIDDLE of the ready queue: on the
    priority loop such removals hit inner and leaf slots of the heap (a removal that repairs the
    heap only in one direction goes unnoticed with fewer than ~7 entries)"""
    ntasks = rng.randint(7, 9)
    scripts = []
    for s in range(3):
        ops = []
        for _ in range(rng.randint(3, 7)):
            r = rng.random()
            t = rng.randrange(ntasks)
            if r < 0.35:
                ops.append(["sleep"])
            elif r < 0.65:
                ops.append(["reinsert", t, rng.choice([0, 0, 1, 2, 5])])
            elif r < 0.85:
                ops.append(["switch", t, rng.choice([None, 0, 1, 3])])
            elif r < 0.93:
                ops.append(["find", t, True])
            else:
                ops.append(["call_pos", rng.choice([0, 1, 3]), rng.randrange(20)])
        ops.append(["sleep"])
        scripts.append(ops)
    mains = [rng.randrange(3) for _ in range(ntasks)]
    return scripts, mains, 1


def random_program(rng, big=False):
    nscripts = rng.randint(2, 5)
    nev = rng.randint(1, 2)
    maxt = 6
    scripts = []
    for s in range(nscripts):
        n = rng.randint(0, 9 if not big else 16)
        ops = []
        ncreate = 0
        for _ in range(n):
            r = rng.random()
            t = rng.randrange(maxt)
            p = rng.choice([0, 0, 1, 1, 2, 3, 4, 6, 9])
            if r < 0.14:
                ops.append(["sleep"])
            elif r < 0.26:
                ops.append(["sleep_insert", p])
            elif r < 0.40:
                ops.append(["switch", t, rng.choice([None, None, 0, 1, 1, 2, 3, 7])])
            elif r < 0.52:
                ops.append(["reinsert", t, p])
            elif r < 0.62:
                ops.append(["call_pos", p, rng.randrange(20)])
            elif r < 0.67:
                ops.append(["call_soon", rng.randrange(20)])
            elif r < 0.70:
                ops.append(["call_pos_reinsert", p, t, rng.choice([0, 1, 2, 5])])
            elif r < 0.80 and ncreate < 2:
                ncreate += 1
                # only later scripts, so that the number of tasks stays bounded
                if s + 1 < nscripts:
                    ops.append([rng.choice(["create", "descend", "descend", "start"]), rng.randrange(s + 1, nscripts)])
            elif r < 0.85:
                ops.append(["find", t, rng.random() < 0.6])
            elif r < 0.88:
                ops.append(["remove", t])
            elif r < 0.90:
                ops.append(["remove_held"])
            elif r < 0.94:
                ops.append(["insert"])
            elif r < 0.97:
                ops.append(["wait", rng.randrange(nev)])
            elif r < 0.99:
                ops.append(["set", rng.randrange(nev)])
            else:
                ops.append(["items"])
        scripts.append(ops)
    mains = [rng.randrange(nscripts) for _ in range(rng.randint(1, 4))]
    return scripts, mains, nev


def shrink_loop(case):
    sc = case["scripts"]
    for i, s in enumerate(sc):
        for j in range(len(s)):
            c = dict(case)
            c["scripts"] = [list(x) for x in sc]
            c["scripts"][i] = s[:j] + s[j + 1:]
            yield c
    if len(case["mains"]) > 1:
        for i in range(len(case["mains"])):
            c = dict(case); c["mains"] = case["mains"][:i] + case["mains"][i + 1:]
            yield c
    if case["fuel"] > 5:
        c = dict(case); c["fuel"] = case["fuel"] - 5
        yield c


POSITIONAL = {"sleep_insert", "switch", "reinsert", "call_pos", "call_pos_reinsert", "descend", "find",
              "remove", "insert"}


def nontrivial_loop(case, ob):
    if not isinstance(ob, list) or len(ob) < 4:
        return False
    ntasks = len(ob[-1][5]) if len(ob[-1]) == 8 else 0
    has_pos = any(op[0] in POSITIONAL for s in case["scripts"] for op in s)
    return ntasks >= 2 and has_pos


def describe_loop(case):
    return case
