"""C14 - Conditions: lock held on every exit from wait(), ordered notify, none lost."""
from __future__ import annotations

import random
from fractions import Fraction

from ..framework import Prop
from ..sched_props import (READY, FUTS, TASKS, LOCKS, CONDS, LOG, make_stream, ok_obs, enum_env, ready_handles)
from .c15 import code, is_cancel

EXCS = (["interrupt", 1], ["interrupt", 2], ["cancelled"])


def consumer(i, hold):
    """acquire; try: log; wait; log ok / except: logexc; log exc-exit   then (holding the lock across an
       await, guarded separately) and finally release - a release that fails (lock not ours) logs 666"""
    tail = (["try", ["do", ["sleep0"], ["end"]], "base", ["do", ["log", 5000 + i], ["end"]], ["end"], ["end"]]
            if hold else ["end"])
    waitpart = ["try", ["do", ["log", 2000 + i], ["do", ["condwait", 0], ["do", ["log", 3000 + i], ["end"]]]],
                "base", ["logexc", ["do", ["log", 4000 + i], ["end"]]], ["end"], tail]
    rel = ["try", ["do", ["release", 0], ["end"]], "base", ["do", ["log", 666], ["end"]], ["end"], ["end"]]
    return ["do", ["log", 1000 + i], ["do", ["acquire", 0], ["try", waitpart, "never", ["end"], rel, ["end"]]]]


def producer(n, hold):
    op = ["notifyall", 0] if n == 0 else ["notify", 0, n]
    body = ["do", op, ["do", ["sleep0"], ["end"]] if hold else ["end"]]
    return ["do", ["acquire", 0], ["try", body, "never", ["end"], ["do", ["release", 0], ["end"]], ["end"]]]


def setups():
    return [(["prio"], [["prio", 0]]), (["plain"], [["intr", 0]]), (["prio"], [["intr", 0]]), (["plain"], [["prio", 0]])]


def gen_random(rng):
    locks, conds = rng.choice(setups())
    loop = rng.choice(["stock", "prio", "sched"])
    nc = rng.randint(2, 5)
    acts = []
    kinds = []
    for i in range(nc):
        if rng.random() < 0.5:
            how = ["py"]
        else:
            how = ["prio", list(rng.choice([[0, 1], [1, 1], [-1, 1], [5, 1], [-5, 1]]))]
        kinds.append(how[0])
        acts.append(["spawn", how, consumer(i, rng.random() < 0.6)])
    acts += [["step"]] * rng.randint(nc - 1, nc + 2)
    py = [i for i, k in enumerate(kinds) if k == "py"]
    for _ in range(rng.randint(4, 24)):
        r = rng.random()
        if r < 0.5:
            acts.append(["step"])
        elif r < 0.68:
            acts.append(["spawn", ["plain"], producer(rng.choice([0, 1, 1, 2, 3]), rng.random() < 0.5)])
        elif r < 0.82:
            acts.append(["do", ["cancel", rng.randrange(nc)]])
        elif py:
            acts.append(["do", ["throw", rng.choice(py), list(rng.choice(EXCS))]])
    acts += [["spawn", ["plain"], producer(0, False)]] + [["step"]] * 30
    return {"loop": loop, "locks": locks, "conds": conds, "events": 0, "acts": acts, "nconsumers": nc}


def exhaustive_cases(tier):
    depth = 2 if tier == "quick" else 3
    alphabet = [["step"], ["do", ["cancel", 0]], ["do", ["cancel", 1]], ["do", ["throw", 1, ["interrupt", 1]]],
                ["do", ["throw", 2, ["interrupt", 2]]], ["spawn", ["plain"], producer(1, True)],
                ["spawn", ["plain"], producer(2, False)]]
    for (locks, conds) in setups()[:2]:
        for loop in ("stock", "prio"):
            base = [["spawn", ["prio", [5, 1]], consumer(0, True)], ["spawn", ["py"], consumer(1, True)],
                    ["spawn", ["py"], consumer(2, False)], ["step"], ["step"], ["step"]]
            for env in enum_env(alphabet, depth):
                yield {"loop": loop, "locks": locks, "conds": conds, "events": 0, "nconsumers": 3,
                       "acts": base + [list(a) for a in env] + [["step"]] * 6
                       + [["spawn", ["plain"], producer(0, False)]] + [["step"]] * 16}


def gen(rng, tier):
    yield from exhaustive_cases(tier)
    for _ in range(300 if tier == "quick" else 3000):
        yield gen_random(rng)


def cond_entries(state):
    c = state[CONDS][0]
    if c[0] == 0:
        return [(Fraction(*e[0]), e[1], e[2]) for e in c[1][1]]
    return [(Fraction(0), i, f) for i, f in enumerate(c[1])]


def oracle(case, ob):
    if not ok_obs(case, ob):
        return f"runner failed: {ob!r}"[:200]
    acts = case["acts"]
    nc = case.get("nconsumers", 0)
    pending = {}
    last_delivered = {}
    prevlog = 0
    for k, st in enumerate(ob):
        a = acts[k]
        where = f"after action {k} {a if a[0] != 'spawn' else 'spawn'}"
        before = ob[k - 1] if k else None
        newlog = st[LOG][prevlog:]
        prevlog = len(st[LOG])
        if any(c == 666 for _, c in newlog):
            return f"{where}: a waiter left wait() without holding the condition's lock (its release() failed)"
        if before is not None and a[0] == "do" and a[1][0] == "throw":
            t = a[1][1]
            changed = st[1:] != before[1:] or st[READY][1] != before[READY][1]
            if changed:
                pending[t] = code(a[1][2])
        if before is not None and a[0] == "do" and a[1][0] == "cancel":
            t = a[1][1]
            if t < len(before[TASKS]) and not before[TASKS][t][0] and st != before:
                if t in pending and not (901 <= pending[t] < 950):
                    pending[t] = 901
                elif t not in pending:
                    pending[t] = 901
        if before is not None and a[0] == "step":
            hb = ready_handles(before)
            if hb and not hb[0][1] and hb[0][2] >= 0:
                t = hb[0][2]
                mine = [c for w, c in newlog if w == t + 1]
                if t in pending:
                    last_delivered[t] = pending.pop(t)
                excs = [c for c in mine if 900 <= c < 1000]
                if t < nc and excs and t in last_delivered:
                    if excs[0] != last_delivered[t] and 901 <= excs[0] < 950:
                        return (f"{where}: wait() of task {t} raised exception code {excs[0]}, "
                                f"the exception delivered to it was {last_delivered[t]}")
                # exit from wait (ok or exception) happened in this step: the lock must be ours now
                if t < nc and any(3000 <= c < 5000 for c in mine):
                    lk = st[LOCKS][0]
                    held_during = True   # judged through the 666 marker at release time
                # an exceptional exit passes a notification on
                if t < nc and any(4000 <= c < 5000 for c in mine):
                    eb = {f: before[FUTS][f][0][0] for (_, _, f) in cond_entries(before)}
                    mine_f = [f for (_, _, f) in cond_entries(before)
                              if not any(f == f2 for (_, _, f2) in cond_entries(st))]
                    others = [f for f, s0 in eb.items() if s0 == 0 and f not in mine_f]
                    if others and case["conds"][0][0] == "prio":
                        now = [f for f in others if st[FUTS][f][0][0] == 1]
                        if not now:
                            return (f"{where}: task {t} left wait() with an exception while {len(others)} waiters were "
                                    f"still un-notified and none of them was notified (a notification may be lost)")
        # notify order: futures that went pending -> result within this action
        if before is not None and case["conds"][0][0] == "prio":
            ents = sorted(cond_entries(before))
            still = {f for (_, _, f) in cond_entries(st)}
            pend = [f for (_, _, f) in ents if before[FUTS][f][0][0] == 0 and f in still]
            woken = [f for f in pend if st[FUTS][f][0][0] == 1]
            if woken and woken != pend[:len(woken)]:
                return (f"{where}: notify woke futures {woken}; the most urgent not-yet-notified waiters "
                        f"(priority at wait start, then arrival) were {pend[:len(woken)]}")
    return None


PROP = Prop(
    pid="C14",
    props_v="theories/Props/C14.v",
    theory_files=["theories/Sched/Model.v", "theories/Sched/Corr.v", "theories/Sched/CondProofs.v"],
    streams=[make_stream("conditions", gen, oracle)],
    rule="bounded-exhaustive environment sequences over {step, cancel i, task_throw i (InterruptException "
         "subclasses), producer with notify(1) holding the lock across an await, producer with notify(2)} against "
         "three consumers (PriorityTask and Python tasks, holding the lock across an await after waking) for "
         "PriorityCondition/PriorityLock and InterruptCondition/asyncio.Lock, plus random producer/consumer programs "
         "with 2..5 waiters on all four condition/lock combinations and three loops; non-trivial: >=4 actions of >=3 kinds",
    assumptions=["faults are CancelledError-derived (plain cancellation or InterruptException subclasses), as the property quantifies"],
)
