"""C19 - Starvation boosting is prompt, history-independent and safe.

One stream, `boost`: the real PosPriorityQueue is driven with a NON-ZERO dyadic
boost factor and a fake `random` returning fixed dyadic draws in (0,1) (every
float operation is then exact and observations are exact Fractions).  Counters
and the complete internal array (class, base, boost, inserted_at, sequence,
object of every entry) are observed after every operation and compared in-kernel
with the Coq model (`pos_run`, Queue/PQCorr.v; runner and printer are C17's).

Histories: busy periods of arbitrary length, drains to empty any number of
times, then a straggler under a sustained load of more urgent entries, queue
lengths 1..200, positional entries at the head while maintenance runs.

The oracle below is independent of the Coq model.  It looks only at the
operations and at what the implementation did (maintenance runs are visible as
increases of last_maintenance) and checks the property:
  * promptness, as a bound in the queue length only: in any stretch of
    operations during which the queue never became empty, once max(10, L)+1
    entries were added AND max(10, L)+1 removed (L = the largest length in the
    stretch) a maintenance run must have happened - whatever came before;
  * at a maintenance run every regular entry that has been passed over by more
    than `len` insertions and is strictly less urgent than the most urgent
    regular entry is boosted (draws are in (0,1), factor > 0);
  * a boost only lowers priority(), only of regular entries strictly less urgent
    than the most urgent regular entry m, and stays above m - (factor-1)(p-m);
    positional entries are never touched, boosts happen only in maintenance;
  * popleft returns the most urgent entry; never a regular entry while a
    positional one is queued.
"""
from __future__ import annotations

import random
from fractions import Fraction

from ..framework import Prop, Stream
from .c17 import coq_pos, fr, impl_pos

APPENDS = ("append", "append_pri", "insert")


# ----------------------------------------------------------------------------
# oracle
# ----------------------------------------------------------------------------
def oracle(case, ob):
    ops = case["ops"]
    f = fr(case["factor"])
    ndraws = len(case["draws"])
    if not isinstance(ob, list) or len(ob) != len(ops):
        return f"runner failed: {ob!r}"[:300]
    prev = {}            # obj -> (class, base, boost, seq)
    prev_lm = 0
    born = {}            # obj -> number of insertions that had happened when it was (re)queued
    n_app = 0            # insertions so far
    win_a = win_r = win_max = 0
    win_start = 0
    nboost = 0
    drains = 0
    for step, (op, (res, st)) in enumerate(zip(ops, ob)):
        k = op[0]
        where = f"step {step} {op}"
        lm, arr = st[0], st[4]
        cur = {}
        for e in arr:
            cur[e[5]] = (e[0], Fraction(*e[1]), Fraction(*e[2]), e[4])
        n = len(arr)
        if len(cur) != n:
            return f"{where}: an object is queued twice"
        okres = res[0] == 0
        is_app = k in APPENDS and okres
        is_rem = k in ("popleft", "remove") and okres
        maint = lm > prev_lm
        hist = f"(history: {step} operations, queue emptied {drains} times before)"

        # ---- popleft returns the most urgent entry; positional entries first
        if k == "popleft" and prev:
            if not okres:
                return f"{where}: popleft failed on a non-empty queue"
            o = res[1]
            if o not in prev:
                return f"{where}: popped {o} which was not queued"
            best = min(prev.values(), key=lambda v: (v[0], v[1] + v[2], v[3]))
            v = prev[o]
            if v[0] != 0 and best[0] == 0:
                return f"{where}: a regular entry ({o}) was popped ahead of a positional one"
            if (v[0], v[1] + v[2], v[3]) != (best[0], best[1] + best[2], best[3]):
                return f"{where}: popped {o} {v} although {best} is more urgent"

        # ---- who changed?
        if k in APPENDS or k in ("popleft", "remove"):
            if maint and not is_app:
                return f"{where}: maintenance ran outside an insertion"
            new_reg = []
            for o, v in cur.items():
                pv = prev.get(o)
                if pv is None or pv[3] != v[3]:
                    # new entry (append / insert / promoted by insert)
                    if v[2] != 0:
                        return f"{where}: freshly queued entry {o} already carries a boost {v[2]}"
                    if v[0] != 0:
                        new_reg.append(o)
                    continue
                if pv[0] != v[0] or pv[1] != v[1]:
                    return f"{where}: class/base priority of queued entry {o} changed {pv} -> {v}"
            # the regular entries as maintenance saw them (old boosts)
            reg_before = {}
            for o, v in cur.items():
                if v[0] == 0:
                    if v[2] != 0:
                        return f"{where}: positional entry {o} has a boost {v[2]}"
                    continue
                pv = prev.get(o)
                oldb = pv[2] if (pv is not None and pv[3] == v[3]) else Fraction(0)
                reg_before[o] = (v[1] + oldb, oldb, v[2])
            changed = [o for o, (p, ob_, nb) in reg_before.items() if ob_ != nb]
            if changed and not maint:
                return f"{where}: boost of {changed} changed although no maintenance ran"
            if maint and reg_before:
                m = min(p for p, _, _ in reg_before.values())
                nboost += len(changed)
                for o in changed:
                    p, oldb, newb = reg_before[o]
                    base = cur[o][1]
                    if not p > m:
                        return (f"{where}: maintenance boosted entry {o} (priority {p}) which is not strictly "
                                f"less urgent than the most urgent regular entry (priority {m})")
                    if not newb < oldb:
                        return (f"{where}: maintenance made entry {o} LESS urgent: boost {oldb} -> {newb} "
                                f"(priority {p} -> {base + newb})")
                    if f > 0 and not (m - (f - 1) * (p - m) < base + newb):
                        return (f"{where}: boost of entry {o} out of bounds: priority {p} -> {base + newb}, "
                                f"most urgent regular {m}, factor {f}, bound {m - (f - 1) * (p - m)}")
                if f > 0 and nboost < ndraws:
                    for o, (p, oldb, newb) in reg_before.items():
                        if o in new_reg or o not in born:
                            continue
                        waited = n_app + 1 - born[o]
                        if p > m and waited > n and oldb == newb:
                            return (f"{where}: maintenance ran but did not consider entry {o} (priority {p} > {m}) "
                                    f"although it was passed over by {waited} insertions at queue length {n} {hist}")

        # ---- promptness: a bound in the queue length only
        win_max = max(win_max, n)
        if is_app:
            n_app += 1
            win_a += 1
        if is_rem:
            win_r += 1
        if is_app:
            K = max(10, win_max) + 1
            if maint:
                win_a = win_r = 0
                win_max = n
                win_start = step + 1
            elif win_a >= K and win_r >= K:
                return (f"{where}: no maintenance although, since step {win_start}, the queue was never empty, never "
                        f"longer than {win_max}, and {win_a} entries were added and {win_r} removed "
                        f"(bound max(10,L)+1 = {K}) {hist}")
        if n == 0 or (k == "insert" and op[1] > 0):
            if n == 0 and prev:
                drains += 1
            win_a = win_r = 0
            win_max = n
            win_start = step + 1

        # ---- bookkeeping of waiting times
        if k in ("append", "append_pri") and okres:
            born[op[1]] = n_app
        elif k == "resched" and okres and res[1] != []:
            born[op[1]] = n_app
        elif k in ("resched_all", "clear", "insert"):
            for o in list(born):
                if o not in cur or cur[o][0] == 0:
                    del born[o]
            if k == "resched_all":
                pass      # entries keep their PriorityValue (and inserted_at)
        for o in list(born):
            if o not in cur:
                del born[o]
        prev = cur
        prev_lm = lm
    return None


# ----------------------------------------------------------------------------
# generators
# ----------------------------------------------------------------------------
FACTORS = ([5, 4], [3, 2], [2, 1], [1, 1], [3, 1])
DRAW_PATTERNS = (
    [[1, 2]],
    [[1, 4], [3, 4]],
    [[7, 8], [1, 8]],
    [[3, 8], [1, 2], [5, 8]],
    [[1, 8]],
    [[3, 4]],
)


class Builder:
    def __init__(self):
        self.ops = []
        self.nxt = 1
        self.len = 0

    def obj(self):
        o = self.nxt
        self.nxt += 1
        return o

    def append(self, pri, kind="append_pri"):
        o = self.obj()
        self.ops.append([kind, o, [pri, 1] if isinstance(pri, int) else pri])
        self.len += 1
        return o

    def insert0(self):
        o = self.obj()
        self.ops.append(["insert", 0, o])
        self.len += 1
        return o

    def pop(self):
        self.ops.append(["popleft"])
        if self.len:
            self.len -= 1

    def busy(self, width, n, order="pa", pris=(0,)):
        """a busy period: `width` entries, n pop/append pairs, then drained to empty"""
        for i in range(width):
            self.append(pris[i % len(pris)])
        for i in range(n):
            if order == "pa":
                self.pop(); self.append(pris[i % len(pris)])
            else:
                self.append(pris[i % len(pris)]); self.pop()
        while self.len:
            self.pop()

    def straggler_phase(self, L, pairs, spri=8, lpris=(0,), order="pa", posmode=0, extra_stragglers=()):
        """a straggler (priority spri) and L-1 more urgent entries, then `pairs` rounds of
        popleft+append of more urgent entries; posmode p > 0: every p-th round a positional
        entry is inserted at the head just before the append and popped afterwards"""
        s = self.append(spri, "append")
        for x in extra_stragglers:
            self.append(x)
        while self.len < L:
            self.append(lpris[self.len % len(lpris)])
        for i in range(pairs):
            flagged = posmode and i % posmode == 0
            lp = lpris[i % len(lpris)]
            if order == "pa":
                self.pop()
                if flagged:
                    self.insert0()
                    if posmode == 1 and i % 2 == 0:
                        self.insert0()
                self.append(lp)
                if flagged:
                    self.pop()
                    if posmode == 1 and i % 2 == 0:
                        self.pop()
            else:
                if flagged:
                    self.insert0()
                self.append(lp)
                if flagged:
                    self.pop()
                self.pop()
        return s


def draws_for(pattern, n):
    return [pattern[i % len(pattern)] for i in range(n)]


def mk_case(b: Builder, factor, pattern, ndraws=64, **meta):
    return {"factor": list(factor), "draws": draws_for(pattern, ndraws), "ops": b.ops, "meta": meta}


def K_of(L):
    return max(10, L) + 1


def gen(rng: random.Random, tier: str):
    quick = tier == "quick"
    # ---- bounded-exhaustive structured scope
    Ns = (0, 3, 12, 30) if quick else (0, 1, 3, 11, 12, 13, 30, 64)
    Ls = (1, 2, 3, 5) if quick else (1, 2, 3, 4, 5, 8, 11, 12)
    facs = (FACTORS[0], FACTORS[2]) if quick else FACTORS[:4]
    pats = DRAW_PATTERNS[:2] if quick else DRAW_PATTERNS[:4]
    for fac in facs:
        for pat in pats:
            for N in Ns:
                for periods in ((1,) if N == 0 else (1, 2)):
                    for L in Ls:
                        for posmode in (0, 1, 3):
                            for order in ("pa", "ap"):
                                b = Builder()
                                if N:
                                    for _ in range(periods):
                                        b.busy(2, N, order)
                                lpris = (0,) if (L + posmode) % 2 == 0 else (0, 1, 0, 2)
                                b.straggler_phase(L, L + 1 + 2 * K_of(L + 2) + 2, 8, lpris, order, posmode)
                                yield mk_case(b, fac, pat, 48, N=N, periods=periods, L=L, posmode=posmode,
                                              order=order)
    # ---- random histories
    nrand = 520 if quick else 5000
    for i in range(nrand):
        b = Builder()
        fac = rng.choice(FACTORS)
        pat = rng.choice(DRAW_PATTERNS)
        nper = rng.choice([0, 1, 1, 2, 3])
        total = 0
        for _ in range(nper):
            N = rng.choice([0, 1, 5, 11, 12, 20, 40, 90] if quick else [0, 1, 12, 40, 150, 400, 900])
            if total + N > (160 if quick else 1500):
                N = 3
            total += N
            w = rng.choice([1, 2, 2, 3, 6])
            pris = (0,) if rng.random() < 0.8 or N > 30 else (0, 1, 2)
            b.busy(w, N, rng.choice(["pa", "ap"]), pris)
            if rng.random() < 0.2:
                b.pop()               # IndexError on the empty queue
        L = rng.choice([1, 2, 2, 3, 4, 6, 9, 10, 11, 12, 13, 17]) if quick else rng.choice(
            [1, 2, 3, 4, 6, 9, 10, 11, 12, 13, 17, 24, 33, 48])
        K = K_of(L + 2)
        pairs = rng.choice([K - 2, K + 1, L + 1 + K, L + 1 + 2 * K + 1])
        lpris = rng.choice([(0,), (0,), (0, 1), (1, 0, 2), (-1, 0)])
        extra = [rng.choice([3, 5, 8, 9])] * rng.choice([0, 0, 1, 2]) if L > 3 else []
        b.straggler_phase(L, pairs, rng.choice([4, 8, 9]), lpris, rng.choice(["pa", "ap"]),
                          rng.choice([0, 0, 1, 2, 3, 5]), extra)
        if rng.random() < 0.15:
            # a second straggler phase after draining again
            while b.len:
                b.pop()
            L2 = rng.choice([2, 3, 5])
            b.straggler_phase(L2, K_of(L2 + 2) + L2 + 3, 8, (0,), "pa", rng.choice([0, 2]))
        yield mk_case(b, fac, pat, 64, L=L, kind="random")
    # ---- long queues (lengths up to 200) after a history with drains
    big = [(50, 1), (100, 1), (200, 0)] if quick else [(50, 1), (64, 2), (100, 1), (128, 3), (150, 0), (200, 1),
                                                         (200, 0), (200, 2)]
    for L, posmode in big:
        b = Builder()
        b.busy(2, rng.choice([15, 33]), "pa")
        b.busy(1, 1, "ap")
        b.straggler_phase(L, K_of(L + 1) + 3, 8, (0,), "pa", 7 * posmode)
        yield mk_case(b, rng.choice(FACTORS[:3]), rng.choice(DRAW_PATTERNS[:3]), 16, L=L, kind="long")
    if not quick:
        # very long busy periods before the straggler arrives
        for N in (2000, 5000):
            b = Builder()
            b.busy(2, N, "pa")
            b.straggler_phase(3, 30, 8, (0,), "pa", 2)
            yield mk_case(b, FACTORS[0], DRAW_PATTERNS[1], 16, N=N, kind="longhistory")


def nontrivial(case, ob):
    """at least one maintenance run and one boost were observed"""
    if not isinstance(ob, list) or len(ob) != len(case["ops"]):
        return False
    lm = 0
    maint = boosted = False
    for res, st in ob:
        if st[0] > lm:
            maint = True
        lm = st[0]
        if not boosted and any(e[2][0] != 0 for e in st[4]):
            boosted = True
    return maint and (boosted or len(case["ops"]) >= 20)


def shrink(case):
    ops = case["ops"]
    n = len(ops)
    for size in (64, 16, 4, 2, 1):
        if size > n:
            continue
        for i in range(0, n - size + 1, size):
            c = dict(case)
            c["ops"] = ops[:i] + ops[i + size:]
            yield c


def describe(case):
    return {"factor": case["factor"], "draws": case["draws"][:4], "meta": case.get("meta"),
            "n_ops": len(case["ops"]), "ops_head": case["ops"][:12]}


def signature(stream, case, msg):
    return None


PROP = Prop(
    pid="C19",
    props_v="theories/Props/C19.v",
    theory_files=["theories/Queue/PQ.v", "theories/Queue/PosPQ.v", "theories/Queue/Exec.v",
                  "theories/Queue/PQCorr.v", "theories/Queue/BoostOld.v", "theories/Queue/BoostProofs.v"],
    streams=[
        Stream(name="boost", imports=["Queue.PQCorr"], run="pos_run",
               input_type="Q * list Q * list posop",
               gen=gen, impl=impl_pos, to_coq=coq_pos, oracle=oracle, nontrivial=nontrivial,
               shrink=shrink, describe=describe, corr_name="PosPriorityQueue-boosting"),
    ],
    rule="structured histories: 0..3 busy periods (width 1..6, 0..N pop/append pairs in either order, drained to "
         "empty, optionally a failing popleft) then a straggler with L-1 more urgent entries and up to "
         "L+1+2(max(10,L)+1) rounds of popleft+append, optionally with positional entries inserted at the head "
         "before the append; bounded-exhaustive over (factor, draw pattern, N, periods, L, positional mode, "
         "order) first, then random, then queue lengths 50..200; dyadic factor and draws; a case is non-trivial "
         "when a maintenance run was observed (and a boost, or >= 20 operations)",
    signature=signature,
    assumptions=["float arithmetic is modelled by exact rationals: the correspondence only uses dyadic factors, "
                 "draws and integer priorities for which every float operation is exact",
                 "random.random() is replaced by a fixed stream of draws in (0,1)",
                 "C19_prompt and C19_counter_inv are proved for the executable model instantiated with the "
                 "heapq transcription (only length facts of the heap primitives are used); C19_boost_safe for "
                 "every heap implementation"],
)
