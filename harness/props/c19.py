"""C19 - Starvation boosting is prompt, history-independent and safe.

One stream, `boost`: the real PosPriorityQueue is driven with a NON-ZERO dyadic
boost factor and a fake `random` returning fixed dyadic draws in (0,1) (every
float operation is then exact and observations are exact Fractions).  Counters
and the complete internal array (class, base, boost, inserted_at, sequence,
object of every entry) are observed after every operation and compared in-kernel
with the Coq model (`pos_run`, Queue/PQCorr.v, reached through the run-length decoder
`boost_run` of Queue/BoostCorr.v; the implementation runner is C17's `impl_pos`).

Histories: busy periods of arbitrary length, drains to empty any number of
times, then a straggler under a sustained load of more urgent entries, queue
lengths 1..200, positional entries at the head while maintenance runs.

The oracle below is independent of the Coq model.  It looks only at the
operations and at what the implementation did (maintenance runs are visible as
increases of last_maintenance) and checks the property:
  * promptness, as a bound in the queue length only: in any stretch of
    operations during which the queue never became empty, once max(10, L)+1
    entries were added AND max(10, L)+1 removed (L = the largest length in the
    stretch) a maintenance run must have happened - whatever came before;
  * at a maintenance run every regular entry that has been passed over by more
    than `len` insertions and is strictly less urgent than the most urgent
    regular entry is boosted (draws are in (0,1), factor > 0);
  * a boost only lowers priority(), only of regular entries strictly less urgent
    than the most urgent regular entry m, and stays above m - (factor-1)(p-m);
    positional entries are never touched, boosts happen only in maintenance;
  * popleft returns the most urgent entry; never a regular entry while a
    positional one is queued.
"""
from __future__ import annotations

import random
from fractions import Fraction

from .. import coqlit as L
from ..framework import Prop, Stream
from .c17 import fr, impl_pos

APPENDS = ("append", "append_pri", "insert")


# ----------------------------------------------------------------------------
# compact cases.  A case is {"factor", "pat", "nd", "segs", "meta"}: the draw
# stream is the first `nd` elements of pat pat pat ..., the operations are the
# run-length encoded codes `segs` = [[count, [code, ...]], ...] (decoder:
# coq/theories/Queue/BoostCorr.v, mirrored by expand_case below):
#   0 popleft | 1 insert(0, next object) | c >= 2: append_pri (even) / append (odd)
#   of the next object with priority c // 2 - 40.  Objects are 1, 2, 3, ...
# ----------------------------------------------------------------------------
def code_of(op):
    k = op[0]
    if k == "popleft":
        return 0
    if k == "insert":
        assert op[1] == 0
        return 1
    p = fr(op[2])
    assert p.denominator == 1 and -39 <= p <= 200
    return 2 * (int(p) + 40) + (1 if k == "append" else 0)


def decode_codes(codes):
    ops = []
    nxt = 1
    for c in codes:
        if c == 0:
            ops.append(["popleft"])
        elif c == 1:
            ops.append(["insert", 0, nxt]); nxt += 1
        else:
            ops.append(["append_pri" if c % 2 == 0 else "append", nxt, [c // 2 - 40, 1]]); nxt += 1
    return ops


def compress(codes):
    """greedy run-length encoding with block periods 1..8"""
    segs = []
    lit = []
    i = 0
    n = len(codes)
    while i < n:
        best = None
        for per in range(1, 9):
            blk = codes[i:i + per]
            if len(blk) < per:
                break
            r = 1
            while codes[i + r * per:i + (r + 1) * per] == blk:
                r += 1
            if r >= 2 and r * per >= 6 and (best is None or r * per > best[0] * best[1]):
                best = (r, per)
        if best:
            if lit:
                segs.append([1, lit]); lit = []
            segs.append([best[0], codes[i:i + best[1]]])
            i += best[0] * best[1]
        else:
            lit.append(codes[i]); i += 1
    if lit:
        segs.append([1, lit])
    return segs


def flat_codes(case):
    out = []
    for cnt, blk in case["segs"]:
        out.extend(blk * cnt)
    return out


def expand_case(case):
    pat = case["pat"]
    return {"factor": case["factor"],
            "draws": [pat[i % len(pat)] for i in range(case["nd"])] if pat else [],
            "ops": decode_codes(flat_codes(case))}


def impl(case):
    return impl_pos(expand_case(case))


def to_coq(case):
    segs = L.lst([L.pair(str(int(cnt)), "[" + ";".join(str(int(c)) for c in blk) + "]")
                  for cnt, blk in case["segs"]])
    return ("(" + L.q(fr(case["factor"])) + ", (" + L.lst([L.q(fr(d)) for d in case["pat"]]) + ", "
            + str(int(case["nd"])) + "), " + segs + ")")


# ----------------------------------------------------------------------------
# oracle
# ----------------------------------------------------------------------------
CLASSES = (("no maintenance although", "C19-not-prompt"),
           ("not strictly less urgent", "C19-boosted-most-urgent"),
           ("out of bounds", "C19-boost-out-of-bounds"),
           ("LESS urgent", "C19-boost-less-urgent"),
           ("did not consider", "C19-straggler-not-considered"),
           ("ahead of a positional", "C19-regular-before-positional"))


def classify(msg):
    for key, sig in CLASSES:
        if key in msg:
            return sig
    return None


def oracle(case, ob):
    """first failure; while a failing case is being shrunk (`only` set by shrink) the
    first failure of that same class, so that a replay keeps showing what it was found for"""
    fails = oracle_all(expand_case(case), ob)
    only = case.get("only")
    for m in fails:
        if only is None or classify(m) == only:
            return m
    return None


def oracle_all(case, ob):
    ops = case["ops"]
    f = fr(case["factor"])
    ndraws = len(case["draws"])
    if not isinstance(ob, list) or len(ob) != len(ops):
        return [f"runner failed: {ob!r}"[:300]]
    fails = []
    prev = {}            # obj -> (class, base, boost, seq)
    prev_lm = 0
    born = {}            # obj -> number of insertions that had happened when it was (re)queued
    n_app = 0            # insertions so far
    win_a = win_r = win_max = 0
    win_start = 0
    nboost = 0
    drains = 0
    for step, (op, (res, st)) in enumerate(zip(ops, ob)):
        k = op[0]
        where = f"step {step} {op}"
        lm, arr = st[0], st[4]
        cur = {}
        for e in arr:
            cur[e[5]] = (e[0], Fraction(*e[1]), Fraction(*e[2]), e[4])
        n = len(arr)
        if len(cur) != n:
            fails.append(f"{where}: an object is queued twice")
            return fails
        okres = res[0] == 0
        is_app = k in APPENDS and okres
        is_rem = k in ("popleft", "remove") and okres
        maint = lm > prev_lm
        hist = f"(history: {step} operations, queue emptied {drains} times before)"

        # ---- popleft returns the most urgent entry; positional entries first
        if k == "popleft" and prev:
            if not okres:
                fails.append(f"{where}: popleft failed on a non-empty queue")
            elif res[1] not in prev:
                fails.append(f"{where}: popped {res[1]} which was not queued")
            else:
                o = res[1]
                best = min(prev.values(), key=lambda v: (v[0], v[1] + v[2], v[3]))
                v = prev[o]
                if v[0] != 0 and best[0] == 0:
                    fails.append(f"{where}: a regular entry ({o}) was popped ahead of a positional one")
                elif (v[0], v[1] + v[2], v[3]) != (best[0], best[1] + best[2], best[3]):
                    fails.append(f"{where}: popped {o} {v} although {best} is more urgent")

        # ---- who changed?
        if k in APPENDS or k in ("popleft", "remove"):
            if maint and not is_app:
                fails.append(f"{where}: maintenance ran outside an insertion")
            new_reg = []
            for o, v in cur.items():
                pv = prev.get(o)
                if pv is None or pv[3] != v[3]:
                    # new entry (append / insert / promoted by insert)
                    if v[2] != 0:
                        fails.append(f"{where}: freshly queued entry {o} already carries a boost {v[2]}")
                    if v[0] != 0:
                        new_reg.append(o)
                    continue
                if pv[0] != v[0] or pv[1] != v[1]:
                    fails.append(f"{where}: class/base priority of queued entry {o} changed {pv} -> {v}")
            # the regular entries as maintenance saw them (old boosts)
            reg_before = {}
            for o, v in cur.items():
                if v[0] == 0:
                    if v[2] != 0:
                        fails.append(f"{where}: positional entry {o} has a boost {v[2]}")
                    continue
                pv = prev.get(o)
                oldb = pv[2] if (pv is not None and pv[3] == v[3]) else Fraction(0)
                reg_before[o] = (v[1] + oldb, oldb, v[2])
            changed = [o for o, (p, ob_, nb) in reg_before.items() if ob_ != nb]
            if changed and not maint:
                fails.append(f"{where}: boost of {changed} changed although no maintenance ran")
            if maint and reg_before:
                m = min(p for p, _, _ in reg_before.values())
                nboost += len(changed)
                for o in changed:
                    p, oldb, newb = reg_before[o]
                    base = cur[o][1]
                    if not p > m:
                        fails.append(f"{where}: maintenance boosted entry {o} (priority {p}) which is not strictly "
                                     f"less urgent than the most urgent regular entry (priority {m})")
                    elif not newb < oldb:
                        fails.append(f"{where}: maintenance made entry {o} LESS urgent: boost {oldb} -> {newb} "
                                     f"(priority {p} -> {base + newb})")
                    elif f > 0 and not (m - (f - 1) * (p - m) < base + newb):
                        fails.append(f"{where}: boost of entry {o} out of bounds: priority {p} -> {base + newb}, "
                                     f"most urgent regular {m}, factor {f}, bound {m - (f - 1) * (p - m)}")
                if f > 0 and nboost < ndraws:
                    for o, (p, oldb, newb) in reg_before.items():
                        if o in new_reg or o not in born:
                            continue
                        waited = n_app + 1 - born[o]
                        if p > m and waited > n and oldb == newb:
                            fails.append(f"{where}: maintenance ran but did not consider entry {o} (priority {p} > {m}) "
                                         f"although it was passed over by {waited} insertions at queue length {n} {hist}")

        # ---- promptness: a bound in the queue length only
        win_max = max(win_max, n)
        if is_app:
            n_app += 1
            win_a += 1
        if is_rem:
            win_r += 1
        if is_app:
            K = max(10, win_max) + 1
            if maint:
                win_a = win_r = 0
                win_max = n
                win_start = step + 1
            elif win_a >= K and win_r >= K:
                fails.append(f"{where}: no maintenance although, since step {win_start}, the queue was never empty, "
                             f"never longer than {win_max}, and {win_a} entries were added and {win_r} removed "
                             f"(bound max(10,L)+1 = {K}) {hist}")
                win_a = win_r = 0          # reported once; start a new stretch
                win_max = n
                win_start = step + 1
        if n == 0 or (k == "insert" and op[1] > 0):
            if n == 0 and prev:
                drains += 1
            win_a = win_r = 0
            win_max = n
            win_start = step + 1

        # ---- bookkeeping of waiting times
        if k in ("append", "append_pri") and okres:
            born[op[1]] = n_app
        elif k == "resched" and okres and res[1] != []:
            born[op[1]] = n_app
        for o in list(born):
            if o not in cur or cur[o][0] == 0:
                del born[o]
        prev = cur
        prev_lm = lm
        if len(fails) > 40:
            break
    return fails


# ----------------------------------------------------------------------------
# generators
# ----------------------------------------------------------------------------
FACTORS = ([5, 4], [3, 2], [2, 1], [1, 1], [3, 1])
DRAW_PATTERNS = (
    [[1, 2]],
    [[1, 4], [3, 4]],
    [[7, 8], [1, 8]],
    [[3, 8], [1, 2], [5, 8]],
    [[1, 8]],
    [[3, 4]],
)


class Builder:
    def __init__(self):
        self.ops = []
        self.nxt = 1
        self.len = 0

    def obj(self):
        o = self.nxt
        self.nxt += 1
        return o

    def append(self, pri, kind="append_pri"):
        o = self.obj()
        self.ops.append([kind, o, [pri, 1] if isinstance(pri, int) else pri])
        self.len += 1
        return o

    def insert0(self):
        o = self.obj()
        self.ops.append(["insert", 0, o])
        self.len += 1
        return o

    def pop(self):
        self.ops.append(["popleft"])
        if self.len:
            self.len -= 1

    def busy(self, width, n, order="pa", pris=(0,)):
        """a busy period: `width` entries, n pop/append pairs, then drained to empty"""
        for i in range(width):
            self.append(pris[i % len(pris)])
        for i in range(n):
            if order == "pa":
                self.pop(); self.append(pris[i % len(pris)])
            else:
                self.append(pris[i % len(pris)]); self.pop()
        while self.len:
            self.pop()

    def straggler_phase(self, L, pairs, spri=8, lpris=(0,), order="pa", posmode=0, extra_stragglers=()):
        """a straggler (priority spri) and L-1 more urgent entries, then `pairs` rounds of
        popleft+append of more urgent entries; posmode p > 0: every p-th round a positional
        entry is inserted at the head just before the append and popped afterwards"""
        s = self.append(spri, "append")
        for x in extra_stragglers:
            self.append(x)
        while self.len < L:
            self.append(lpris[self.len % len(lpris)])
        for i in range(pairs):
            flagged = posmode and i % posmode == 0
            lp = lpris[i % len(lpris)]
            if order == "pa":
                self.pop()
                if flagged:
                    self.insert0()
                    if posmode <= 2 and i % 4 == 0:
                        self.insert0()
                self.append(lp)
                if flagged:
                    self.pop()
                    if posmode <= 2 and i % 4 == 0:
                        self.pop()
            else:
                if flagged:
                    self.insert0()
                self.append(lp)
                if flagged:
                    self.pop()
                self.pop()
        return s


def mk_case(b: Builder, factor, pattern, ndraws=64, **meta):
    codes = [code_of(op) for op in b.ops]
    case = {"factor": list(factor), "pat": [list(d) for d in pattern], "nd": ndraws,
            "segs": compress(codes), "meta": meta}
    assert decode_codes(flat_codes(case)) == b.ops
    return case


def K_of(L):
    return max(10, L) + 1


def gen(rng: random.Random, tier: str):
    quick = tier == "quick"
    # ---- bounded-exhaustive structured scope
    hist = ((0, 1), (3, 1), (13, 1), (13, 2)) if quick else (
        (0, 1), (1, 1), (3, 1), (11, 1), (12, 1), (13, 2), (30, 1), (30, 3))
    Ls = (1, 2, 3, 5) if quick else (1, 2, 3, 5, 8, 12)
    facs = (FACTORS[0], FACTORS[2]) if quick else FACTORS[:3]
    pats = DRAW_PATTERNS[:2] if quick else DRAW_PATTERNS[1:3]
    for fac in facs:
        for pi, pat0 in enumerate(pats if not quick else pats[:1]):
            for N, periods in hist:
                for L in Ls:
                    for posmode in (0, 2, 5):
                        for order in ("pa", "ap"):
                            pat = pats[(L + N) % 2] if quick else pat0
                            b = Builder()
                            for _ in range(periods):
                                b.busy(2, N, order)
                            lpris = (0,) if (L + posmode) % 2 == 0 else (0, 1, 0, 2)
                            if quick:
                                pairs = 2 * K_of(L + 2) + 1 if (order == "pa" and posmode == 0) else K_of(L + 2) + L + 2
                            else:
                                pairs = L + 1 + 2 * K_of(L + 2) + 2
                            b.straggler_phase(L, pairs, 8, lpris, order, posmode)
                            yield mk_case(b, fac, pat, 48, N=N, periods=periods, L=L, posmode=posmode,
                                          order=order)
    # ---- random histories
    nrand = 900 if quick else 1100
    for i in range(nrand):
        b = Builder()
        fac = rng.choice(FACTORS)
        pat = rng.choice(DRAW_PATTERNS)
        nper = rng.choice([0, 0, 1, 1, 2] if quick else [0, 1, 1, 2, 3])
        total = 0
        for _ in range(nper):
            N = rng.choice([0, 1, 5, 12, 13] if quick else [0, 1, 12, 40, 150, 400])
            if total + N > (14 if quick else 400):
                N = 2
            total += N
            w = rng.choice([1, 1, 2, 2, 3] if quick else [1, 2, 2, 3, 6])
            pris = (0,) if rng.random() < 0.8 or N > 30 else (0, 1, 2)
            b.busy(w, N, rng.choice(["pa", "ap"]), pris)
            if rng.random() < 0.2:
                b.pop()               # IndexError on the empty queue
        L = rng.choice([1, 2, 2, 2, 3, 3, 3, 4, 4, 5, 6, 9]) if quick else rng.choice(
            [1, 2, 3, 4, 6, 9, 10, 11, 12, 13, 17, 24, 33, 48])
        K = K_of(L + 2)
        pairs = rng.choice([K - 2] + [K + 1] * 9 + [K + 2] * 3 + [K + 3, L + 1 + K, L + 1 + K] if quick else
                           [K - 2, K + 1, L + 1 + K, L + 1 + 2 * K + 1])
        lpris = rng.choice([(0,), (0,), (0, 1), (1, 0, 2), (-1, 0)])
        extra = [rng.choice([3, 5, 8, 9])] * rng.choice([0, 0, 1, 2]) if L > 3 else []
        b.straggler_phase(L, pairs, rng.choice([4, 8, 9]), lpris, rng.choice(["pa", "ap"]),
                          rng.choice([0, 0, 0, 3, 4, 5] if quick else [0, 0, 1, 2, 3, 5]), extra)
        if rng.random() < (0.06 if quick else 0.15):
            # a second straggler phase after draining again
            while b.len:
                b.pop()
            L2 = rng.choice([2, 3, 5])
            b.straggler_phase(L2, K_of(L2 + 2) + L2 + 3, 8, (0,), "pa", rng.choice([0, 2]))
        yield mk_case(b, fac, pat, 64, L=L, kind="random")
    # ---- long queues (lengths up to 200) after a history with drains
    big = [(40, 1), (200, 0)] if quick else [
        (50, 1), (100, 1), (150, 0), (200, 1)]
    for L, posmode in big:
        b = Builder()
        b.busy(2, rng.choice([15, 33]), "pa")
        b.busy(1, 1, "ap")
        b.straggler_phase(L, K_of(L + 1) + 3, 8, (0,), "pa", 7 * posmode)
        yield mk_case(b, rng.choice(FACTORS[:3]), rng.choice(DRAW_PATTERNS[:3]), 16, L=L, kind="long")
    if not quick:
        # very long busy periods before the straggler arrives
        for N in (2000, 5000):
            b = Builder()
            b.busy(2, N, "pa")
            b.straggler_phase(3, 30, 8, (0,), "pa", 2)
            yield mk_case(b, FACTORS[0], DRAW_PATTERNS[1], 16, N=N, kind="longhistory")


def nontrivial(case, ob):
    """at least one maintenance run and one boost were observed"""
    nops = sum(cnt * len(blk) for cnt, blk in case["segs"])
    if not isinstance(ob, list) or len(ob) != nops:
        return False
    lm = 0
    maint = boosted = False
    for res, st in ob:
        if st[0] > lm:
            maint = True
        lm = st[0]
        if not boosted and any(e[2][0] != 0 for e in st[4]):
            boosted = True
    return maint and (boosted or nops >= 20)


def shrink(case):
    segs = case["segs"]
    only = case.get("only")
    if only is None:
        # keep the class of the failure this case was reported for
        m = oracle(case, impl(case))
        only = classify(m) if m else None

    def variant(new):
        c = dict(case)
        if only is not None:
            c["only"] = only
        c["segs"] = [sg for sg in new if sg[0] > 0 and sg[1]]
        return c
    for i in range(len(segs)):
        yield variant(segs[:i] + segs[i + 1:])
    for i, (cnt, blk) in enumerate(segs):
        for c2 in (cnt // 2, cnt - 1):
            if 0 < c2 < cnt:
                yield variant(segs[:i] + [[c2, blk]] + segs[i + 1:])
    for i, (cnt, blk) in enumerate(segs):
        if cnt == 1 and len(blk) > 1:
            for j in range(len(blk)):
                yield variant(segs[:i] + [[1, blk[:j] + blk[j + 1:]]] + segs[i + 1:])
    if case["nd"] > 4:
        c = variant(segs); c["nd"] = case["nd"] // 2
        yield c


def describe(case):
    ex = expand_case(case)
    return {"factor": case["factor"], "draw_pattern": case["pat"], "n_draws": case["nd"],
            "meta": case.get("meta"), "n_ops": len(ex["ops"]), "ops_head": ex["ops"][:12]}


def signature(stream, case, msg):
    """failure classes (one report per class); none of them is a known finding once
    fixes/F11-boost.patch is applied"""
    return classify(msg)


PROP = Prop(
    pid="C19",
    props_v="theories/Props/C19.v",
    theory_files=["theories/Queue/PQ.v", "theories/Queue/PosPQ.v", "theories/Queue/Exec.v",
                  "theories/Queue/PQCorr.v", "theories/Queue/BoostCorr.v", "theories/Queue/BoostOld.v",
                  "theories/Queue/BoostProofs.v"],
    streams=[
        Stream(name="boost", imports=["Queue.BoostCorr"], run="boost_run",
               input_type="Q * (list Q * Z) * list (Z * list Z)",
               gen=gen, impl=impl, to_coq=to_coq, oracle=oracle, nontrivial=nontrivial,
               shrink=shrink, describe=describe, corr_name="PosPriorityQueue-boosting"),
    ],
    rule="structured histories: 0..3 busy periods (width 1..6, 0..N pop/append rounds in either order, drained to "
         "empty, optionally a failing popleft) then a straggler with L-1 more urgent entries and K+1..L+1+2K rounds "
         "(K = max(10,L)+1) of popleft+append in either order, optionally with one or two positional entries "
         "inserted at the head before the append and popped afterwards; bounded-exhaustive over (factor, history, "
         "L, positional mode, order) first, then random, then queue lengths 40..200; dyadic factor and draws, "
         "integer priorities; a case is non-trivial when a maintenance run was observed (and a boost, or >= 20 "
         "operations); distinct = distinct canonical JSON of the compact case",
    signature=signature,
    assumptions=["float arithmetic is modelled by exact rationals: the correspondence only uses dyadic factors, "
                 "draws and integer priorities for which every float operation is exact",
                 "random.random() is replaced by a fixed stream of draws in (0,1)",
                 "C19_prompt and C19_counter_inv are proved for the executable model instantiated with the "
                 "heapq transcription (only length facts of the heap primitives are used); C19_boost_safe for "
                 "every heap implementation"],
)
