"""C01 - eager(): synchronous prefix, then exactly the outcome of a plain Task.
   C03 (cancellation of eager awaitables) shares the program generator."""
from __future__ import annotations

import copy
import random

from .. import sched_lang as SL
from ..framework import Prop
from ..sched_props import (READY, FUTS, TASKS, LOG, make_stream, ok_obs)

S, A, SEEN, CLEAN, FIN, PAFTER, JOIN = 1000, 2000, 3000, 4000, 5000, 6000, 7000


def seqs(ops, rest):
    s = rest
    for op in reversed(ops):
        if isinstance(op, tuple) and op[0] == "guarded":
            s = ["try", ["do", ["awaitfut", op[1]], ["end"]], "exception", ["do", ["log", op[2]], ["end"]], ["end"], s]
        elif isinstance(op, tuple) and op[0] == "locked":
            s = ["do", ["acquire", 0], ["try", ["do", ["awaitfut", op[1]], ["end"]], "never", ["end"],
                                        ["do", ["release", 0], ["end"]], s]]
        else:
            s = ["do", op, s]
    return s


def child(rng, c, cancel_shapes=False, prims=False):
    """log S; try: prefix; await...; log A; ...; return/raise  except CancelledError: log SEEN; [await; log CLEAN];
       (re-raise | suppress)  finally: log FIN"""
    ops = []
    n = rng.randint(0, 4)
    for j in range(n):
        r = rng.random()
        if r < 0.2:
            ops.append(["sleep0"])
        elif r < 0.27 and prims:
            # asyncio's own primitives inside an eager coroutine (C01's quantifier allows them)
            k = rng.random()
            if k < 0.4:
                ops.append(["eventwait", 0])
            elif k < 0.6:
                ops.append(["sleep", [1, 1]])
            else:
                ops.append(("locked", rng.randrange(2)))          # async with asyncio.Lock: await fut
        elif r < 0.6:
            ops.append(["awaitfut", rng.randrange(2)])
        elif r < 0.8:
            # await a future, handle its failure, carry on (and suspend again later)
            ops.append(("guarded", rng.randrange(2), A + c * 10 + j))
        else:
            ops.append(["log", A + c * 10 + j])
    tail_kind = rng.random()
    if tail_kind < 0.6:
        tail = ["ret", c + 1]
    elif tail_kind < 0.8:
        tail = ["raise", ["user", c + 1]]
    else:
        tail = ["raise", ["base", c + 1]]
    body = seqs(ops + [["log", A + c * 10 + 9]], tail)
    handler = ["do", ["log", SEEN + c], ["end"]]
    if rng.random() < 0.5:
        handler = ["do", ["log", SEEN + c], ["do", ["sleep0"], ["do", ["log", CLEAN + c], ["end"]]]]
    suppress = rng.random() < 0.4

    def app(s, rest):
        if s[0] == "end":
            return rest
        return ["do", s[1], app(s[2], rest)]
    handler = app(handler, ["end"] if suppress else ["reraise"])
    return ["do", ["log", S + c], ["try", body, "cancel", handler, ["do", ["log", FIN + c], ["end"]], ["end"]]], suppress


def parent(rng, first_child, nchildren, how, cancel=False, table=None, prims=False):
    s_children = []
    for i in range(nchildren):
        c = first_child + i
        sc, suppress = child(rng, c, prims=prims)
        if table is not None:
            table[str(c)] = {"suppress": suppress}
        s_children.append(sc)
    # spawn all, then (C03) cancel some at once or later, then join all
    joins = ["end"]
    for i in reversed(range(nchildren)):
        c = first_child + i
        joins = ["try", ["do", ["awaitfut", 1000 + i], ["end"]], "base", ["logexc", ["end"]], ["end"],
                 ["do", ["log", JOIN + c], joins]]
    mid = joins
    if cancel:
        for i in reversed(range(nchildren)):
            r = rng.random()
            if r < 0.35:
                mid = ["do", ["cancelaw", 1000 + i], mid]                      # at once, no loop step in between
            elif r < 0.6:
                mid = ["do", ["sleep0"], ["do", ["cancelaw", 1000 + i], mid]]   # after one round
            elif r < 0.7:
                mid = ["do", ["cancelaw", 1000 + i], ["do", ["cancelaw", 1000 + i], mid]]   # repeated
    script = mid
    for i in reversed(range(nchildren)):
        c = first_child + i
        h = list(how) + (["factory"] if how == ["eager"] and rng.random() < 0.4 else [])
        script = ["spawn", h, s_children[i], ["do", ["log", PAFTER + c], script]]
    return script


def gen_case(rng, cancel=False):
    loop = rng.choice(["stock", "sched", "prio"])
    table = {}
    acts = [["do", ["newfut"]], ["do", ["newfut"]]]
    if rng.random() < 0.3:
        acts.append(["do", ["setresult", 1, 5]])     # a future that is already finished
    nparents = rng.randint(1, 2)
    c = 0
    # a third of the (cancellation-free) programs let the eager coroutines use asyncio.Event / asyncio.Lock / sleep(d)
    prims = (not cancel) and rng.random() < 0.35
    for p in range(nparents):
        n = rng.randint(1, 3)
        acts.append(["spawn", [rng.choice(["plain", "py"])], parent(rng, c, n, ["eager"], cancel, table, prims)])
        c += n
    for _ in range(rng.randint(3, 16)):
        r = rng.random()
        if r < 0.7:
            acts.append(["step"])
        elif r < 0.8:
            acts.append(["do", ["setresult", 0, 3]])
        elif r < 0.87:
            acts.append(["do", ["setresult", 1, 4]])
        elif r < 0.93:
            acts.append(["do", ["setexc", rng.randrange(2), ["user", 9]]])
        elif cancel:
            # only the eager awaitables (future ids after the shared futures and the parents' own tasks)
            acts.append(["do", ["cancelaw", 2 + nparents + rng.randrange(3)]])
    acts += [["do", ["setresult", 0, 3]], ["do", ["setresult", 1, 4]]] + [["step"]] * 30
    if prims:
        # virtual time: let the sleeps expire, set the event, drain
        acts += [["do", ["eventset", 0]], ["advance", [2, 1]], ["begin"]] + [["step"]] * 30
        return {"loop": loop, "locks": ["plain"], "conds": [], "events": 1, "acts": acts, "children": table,
                "nchildren": c, "nparents": nparents}
    return {"loop": loop, "locks": [], "conds": [], "events": 0, "acts": acts, "children": table, "nchildren": c,
            "nparents": nparents}


def gen(rng, tier):
    for _ in range(700 if tier == "quick" else 4000):
        yield gen_case(rng, cancel=False)


def as_plain(case):
    def conv(s):
        if not isinstance(s, list) or not s:
            return s
        if s[0] == "spawn" and isinstance(s[1], list) and s[1] and s[1][0] == "eager":
            # reference: a plain task; the variable then holds a task id, awaited with awaittask
            return ["spawn", ["plain"], conv(s[2]), conv(s[3])]
        if s[0] == "do" and s[1][0] == "awaitfut" and s[1][1] >= 1000:
            return ["do", ["awaittask", s[1][1]], conv(s[2])]
        if s[0] == "do" and s[1][0] == "cancelaw" and s[1][1] >= 1000:
            return ["do", ["cancel", s[1][1]], conv(s[2])]
        return [conv(x) for x in s]
    ref = copy.deepcopy(case)
    ref["acts"] = [conv(a) if a[0] == "spawn" else a for a in ref["acts"]]
    return ref


def child_trace(log, c):
    codes = []
    for _, x in log:
        if x in (S + c, SEEN + c, CLEAN + c, FIN + c) or (A + c * 10 <= x < A + c * 10 + 10):
            codes.append(x)
    return codes


def join_outcomes(log, nchildren):
    """what the parent saw when joining child c: exception code logged right before JOIN+c, or 'ok'"""
    out = {}
    for i, (_, x) in enumerate(log):
        if JOIN <= x < JOIN + 1000:
            prev = log[i - 1][1] if i else None
            out[x - JOIN] = prev if prev is not None and 900 <= prev < 1000 else "ok"
    return out


def oracle(case, ob):
    if not ok_obs(case, ob):
        return f"runner failed: {ob!r}"[:200]
    log = ob[-1][LOG]
    nch = case["nchildren"]
    # (i) the prefix runs synchronously: S_c precedes the parent's next statement
    pos = {x: i for i, (_, x) in reversed(list(enumerate(log)))}
    for c in range(nch):
        if PAFTER + c in pos and (S + c not in pos or pos[S + c] > pos[PAFTER + c]):
            return f"child {c}: eager() returned before the coroutine's synchronous prefix had run"
    # (ii) no task when the coroutine finished without suspending
    finished_sync = [c for c in range(nch) if PAFTER + c in pos and FIN + c in pos and pos[FIN + c] < pos[PAFTER + c]]
    started = [c for c in range(nch) if PAFTER + c in pos]
    ntasks = len(ob[-1][TASKS])
    expect = case["nparents"] + len(started) - len(finished_sync)
    if ntasks != expect:
        return (f"{ntasks} tasks exist; expected {expect} = {case['nparents']} parents + {len(started)} eager calls "
                f"- {len(finished_sync)} that finished without suspending (no Task must be created for those)")
    # (iii) same per-coroutine trace and outcome as plain tasks
    ref = as_plain(case)
    ob2 = SL.impl_sched(ref)
    if ok_obs(ref, ob2):
        log2 = ob2[-1][LOG]
        for c in range(nch):
            if child_trace(log, c) != child_trace(log2, c):
                return (f"child {c}: side effects under eager() {child_trace(log, c)} differ from a plain Task's "
                        f"{child_trace(log2, c)}")
        j1, j2 = join_outcomes(log, nch), join_outcomes(log2, nch)
        if j1 != j2:
            return f"outcomes seen by the awaiting parents differ: eager {j1}, plain tasks {j2}"
    return None


F18 = "F18-eager-prioritylock-task-identity"


def signature(stream, case, msg):
    """Known finding F18: PriorityLock.acquire() does its bookkeeping (waiter entry, _waiting_on, and the
    ownership recorded by _take_lock after the wait) for the task that was current when acquire() was ENTERED.
    A coroutine started by eager() that blocks in acquire() during its synchronous prefix entered it in the
    parent task and is resumed in its continuation task: the parent is recorded as owner and the coroutine's
    own release() fails its assertion.  A failure carries this signature iff the case contains a coroutine
    started with eager() whose body acquires a PriorityLock; every other failure is reported as a violation."""
    if "prio" not in (case.get("locks") or []):
        return None

    def acquires_prio(s):
        if not isinstance(s, list) or not s:
            return False
        if s[0] == "do" and isinstance(s[1], list) and s[1][:1] == ["acquire"] \
                and s[1][1] < len(case["locks"]) and case["locks"][s[1][1]] == "prio":
            return True
        return any(acquires_prio(x) for x in s if isinstance(x, list))

    def eager_with_lock(s):
        if not isinstance(s, list) or not s:
            return False
        if s[0] == "spawn" and isinstance(s[1], list) and s[1][:1] == ["eager"] and acquires_prio(s[2]):
            return True
        return any(eager_with_lock(x) for x in s if isinstance(x, list))
    if any(eager_with_lock(a) for a in case["acts"]):
        return F18
    return None


F19 = "F19-eager-task_timeout-task-identity"


def signature(stream, case, msg, _f18=signature):
    """F18 (above) or known finding F19: task_timeout() entered in the synchronous prefix of a coroutine started
    with eager() interrupts the parent task at the deadline.  Signature: the case contains a coroutine started
    with eager() whose body contains a task_timeout block with a deadline."""
    r = _f18(stream, case, msg)
    if r:
        return r

    def has_timeout(s):
        if not isinstance(s, list) or not s:
            return False
        if s[0] == "timeout" and s[1] is not None:
            return True
        return any(has_timeout(x) for x in s if isinstance(x, list))

    def eager_with_timeout(s):
        if not isinstance(s, list) or not s:
            return False
        if s[0] == "spawn" and isinstance(s[1], list) and s[1][:1] == ["eager"] and has_timeout(s[2]):
            return True
        return any(eager_with_timeout(x) for x in s if isinstance(x, list))
    return F19 if any(eager_with_timeout(a) for a in case["acts"]) else None


PROP = Prop(
    pid="C01",
    props_v="theories/Props/C01.v",
    theory_files=["theories/Sched/Model.v", "theories/Sched/Corr.v", "theories/Sched/EagerProofs.v"],
    streams=[make_stream("eager", gen, oracle)],
    signature=signature,
    rule="random programs: 1..2 parent tasks each starting 1..3 coroutines with eager() and joining them later; "
         "bodies over {await pending/finished shared future, sleep(0), log, try/except CancelledError/finally, return, "
         "in a third of the programs also asyncio.Event.wait, sleep(d) and an asyncio.Lock section around an await, "
         "raise Exception/BaseException subclasses}; several eager coroutines awaiting the same future; the environment "
         "resolves/fails the futures in all orders; three loops; reference = the same program with plain tasks; "
         "non-trivial: >=4 actions of >=3 kinds",
    assumptions=["bodies' behaviour depends only on what they await (shared futures resolved by the environment), so that "
                 "per-coroutine traces are schedule independent and comparable with plain tasks"],
)
