"""C11 - Priority inheritance bounds priority inversion.  (C12 shares the generator.)"""
from __future__ import annotations

import itertools
import random
from fractions import Fraction

from .. import sched_gen as G
from ..framework import Prop
from ..sched_props import (READY, FUTS, TASKS, LOCKS, make_stream, ok_obs, ready_handles)

PRIOS = ([0, 1], [1, 1], [-1, 1], [5, 1], [-5, 1], [3, 1], [1, 2], [10, 1], [-10, 1], [3, 1], [5, 1])


def sect(l, body):
    return ["do", ["acquire", l], ["try", body, "never", ["end"], ["do", ["release", l], ["end"]], ["end"]]]


def nest(rng, locks, lognum):
    """nested sections over an increasing subsequence of the locks, with sleeps / event waits inside"""
    def inner(ls):
        ops = []
        for _ in range(rng.randint(0, 2)):
            ops.append(rng.choice([["sleep0"], ["sleep0"], ["eventwait", 0], ["log", lognum[0]]]))
            lognum[0] += 1
        body = ["end"]
        if ls:
            body = sect(ls[0], inner(ls[1:]))
        for op in reversed(ops):
            body = ["do", op, body]
        tail = ["do", ["sleep0"], ["end"]] if rng.random() < 0.5 else ["end"]
        # body ; tail
        def app(s, rest):
            if s[0] == "end":
                return rest
            if s[0] == "do":
                return ["do", s[1], app(s[2], rest)]
            if s[0] == "try":
                return s[:5] + [app(s[5], rest)]
            return s
        return app(body, tail)
    return inner(locks)


def gen_case(rng, loops=("stock", "prio", "sched")):
    nl = rng.randint(1, 3)
    nw = rng.randint(2, 6)
    loop = rng.choice(loops)
    lognum = [1]
    acts = []
    for i in range(nw):
        ls = sorted(rng.sample(range(nl), rng.randint(1, nl)))
        script = ["do", ["log", 1000 + i], nest(rng, ls, lognum)]
        if rng.random() < 0.2:
            how = ["plain"]
        else:
            p = list(rng.choice(PRIOS))
            how = ["prio", p] + (["enum"] if p[1] == 1 and p[0] in (10, 0, -10) and rng.random() < 0.5 else
                                 ["int"] if rng.random() < 0.5 else [])
        acts.append(["spawn", how, script])
    n = rng.randint(6, 40)
    late = rng.random() < 0.5
    for k in range(n):
        r = rng.random()
        if r < 0.8:
            acts.append(["step"])
        elif r < 0.9:
            acts.append(["do", ["eventset", 0]])
        elif late:
            # a high-priority task arriving while others are queued (inheritance while queued)
            ls = sorted(rng.sample(range(nl), rng.randint(1, nl)))
            acts.append(["spawn", ["prio", list(rng.choice([[-5, 1], [-10, 1], [-1, 1]]))],
                         ["do", ["log", 1900 + k], nest(rng, ls, lognum)]])
    acts.append(["do", ["eventset", 0]])
    acts += [["step"]] * 40
    return {"loop": loop, "locks": ["prio"] * nl, "conds": [], "events": 1, "acts": acts}


def chain_cases(tier):
    """chains of length 1..4: task i holds lock i and waits for lock i+1; all arrival orders of extra waiters"""
    maxlen = 3 if tier == "quick" else 4
    for loop in ("stock", "prio"):
        for n in range(1, maxlen + 1):
            for prios in itertools.product([5, 0, -5], repeat=2):
                acts = []
                # holder of the last lock blocks on an event (or just sleeps)
                for tail_blocks in (True, False):
                    acts = []
                    last = sect(n - 1, ["do", ["eventwait", 0] if tail_blocks else ["sleep0"], ["do", ["sleep0"], ["end"]]])
                    acts.append(["spawn", ["prio", [7, 1]], last])
                    for i in range(n - 2, -1, -1):
                        acts.append(["spawn", ["prio", [6, 1]], sect(i, sect(i + 1, ["do", ["sleep0"], ["end"]]))])
                    acts += [["step"]] * (n + 1)
                    acts.append(["spawn", ["prio", [prios[0], 1]], sect(0, ["do", ["sleep0"], ["end"]])])
                    acts.append(["spawn", ["prio", [prios[1], 1]], sect(0, ["do", ["sleep0"], ["end"]])])
                    acts.append(["spawn", ["prio", [2, 1]], ["do", ["sleep0"], ["do", ["sleep0"], ["end"]]]])
                    acts += [["step"]] * 6 + [["do", ["eventset", 0]]] + [["step"]] * 30
                    yield {"loop": loop, "locks": ["prio"] * n, "conds": [], "events": 1, "acts": acts}


def window_cases(tier):
    """two-lock chains in which an urgent task starts waiting at EVERY possible instant, in particular
    inside a hand-over window (a lock released, its next owner woken but not yet run): A holds L0;
    M holds L1 and queues on L0; X queues on L0; A releases; H (urgent) arrives on L1 after j steps"""
    for loop in ("stock", "prio"):
        for (pm, px, ph, dy) in ((5, 3, -10, -1), (5, 3, -5, -1), (3, 3, -10, -1), (5, 1, 0, -1), (2, 5, -10, 3), (2, 5, -5, 3)):
            for j in range(0, 12 if tier == "quick" else 16):
                for spin in (0, 1):
                    a = sect(0, ["do", ["sleep0"], ["do", ["sleep0"], ["end"]]])
                    m = sect(1, sect(0, ["do", ["sleep0"], ["end"]]))
                    x = ["do", ["sleep0"], sect(0, ["do", ["sleep0"], ["end"]])] if spin else sect(0, ["do", ["sleep0"], ["end"]])
                    h = sect(1, ["do", ["sleep0"], ["end"]])
                    y = sect(0, ["do", ["sleep0"], ["end"]])
                    # z: a runnable bystander of middle urgency (it must not overtake a runnable holder that
                    # blocks a more urgent waiter)
                    z = ["do", ["sleep0"], ["do", ["sleep0"], ["do", ["sleep0"], ["do", ["sleep0"], ["do", ["sleep0"],
                         ["do", ["sleep0"], ["do", ["sleep0"], ["do", ["sleep0"], ["end"]]]]]]]]]
                    acts = [["spawn", ["prio", [6, 1]], a], ["spawn", ["prio", [pm, 1]], m], ["spawn", ["prio", [px, 1]], x],
                            ["spawn", ["prio", [pm + dy, 1]], y], ["spawn", ["prio", [0, 1]], z]]
                    acts += [["step"]] * j
                    acts.append(["spawn", ["prio", [ph, 1]], h])
                    acts += [["step"]] * 30
                    yield {"loop": loop, "locks": ["prio", "prio"], "conds": [], "events": 0, "acts": acts}


def fan_cases(tier):
    """lock chains in which EVERY lock has a second, independent waiter: O (least urgent, runnable later) holds
    lock 0; X_k holds lock k and waits for lock k-1 (k = 1..d); side waiter P_k waits for lock k-1; then O is made
    runnable, a runnable bystander M and the urgent W (waits for lock d) arrive.  All urgency orders of X / P / M
    around W.  The inherited priority must reach O through queues whose order is stale while it is propagated."""
    log = lambda n: ["do", ["log", n], ["end"]]
    for loop in ("prio", "stock"):
        for d in ((1, 2) if tier == "quick" else (1, 2, 3)):
            for (px, pp, pm, pw) in itertools.product((5, 8), (3, 6, 9), (2, 4), (1,)):
                for side in range(1, d + 1) if tier == "quick" else range(0, d + 1):
                    acts = [["spawn", ["prio", [10, 1]], sect(0, ["do", ["eventwait", 0], log(100)])], ["step"]]
                    for k in range(1, d + 1):
                        acts += [["spawn", ["prio", [px, 1]], sect(k, sect(k - 1, log(100 + k)))], ["step"]]
                    # side waiters on lock side-1 (0: none)
                    if side:
                        acts += [["spawn", ["prio", [pp, 1]], sect(side - 1, log(200 + side))], ["step"]]
                    acts += [["do", ["eventset", 0]],
                             ["spawn", ["prio", [pm, 1]], ["do", ["log", 300], ["do", ["sleep0"], log(301)]]],
                             ["spawn", ["prio", [pw, 1]], sect(d, log(400))]]
                    acts += [["step"]] * (12 + 4 * d)
                    yield {"loop": loop, "locks": ["prio"] * (d + 1), "conds": [], "events": 1, "acts": acts}


def gen(rng, tier):
    yield from chain_cases(tier)
    yield from window_cases(tier)
    yield from fan_cases(tier)
    for _ in range(400 if tier == "quick" else 2500):
        yield gen_case(rng)


INF = Fraction(10 ** 9)


def graph(st):
    """wait-for graph from the observation: prio[t], holding[t], waiters[l] (tasks; plain tasks as None)"""
    tasks = st[TASKS]
    prio = {t: Fraction(*tk[5][0]) for t, tk in enumerate(tasks) if tk[5]}
    waiters = {}
    for li, lk in enumerate(st[LOCKS]):
        if lk[0] != 0:
            continue
        ws = []
        for (p, seq, fid) in lk[3][1]:
            owner = [t for t, tk in enumerate(tasks) if tk[1] == fid and not tk[0]]
            ws.append((owner[0] if owner else None, seq, fid))
        waiters[li] = ws
    return prio, waiters


def eprio_ref(st, t, prio, waiters, depth=0):
    if depth > 20:
        return prio.get(t, Fraction(0))
    best = prio[t]
    for l in st[TASKS][t][3]:
        for (w, _, _) in waiters.get(l, []):
            if w is None:
                continue
            v = eprio_ref(st, w, prio, waiters, depth + 1) if w in prio else Fraction(0)
            best = min(best, v)
    return best


def oracle(case, ob):
    if not ok_obs(case, ob):
        return f"runner failed: {ob!r}"[:200]
    for k, st in enumerate(ob):
        a = case["acts"][k]
        where = f"after action {k} {a if a[0] != 'spawn' else 'spawn'}"
        prio, waiters = graph(st)
        for t, tk in enumerate(st[TASKS]):
            if not tk[5] or tk[0]:
                continue
            got = Fraction(*tk[6][0])
            want = eprio_ref(st, t, prio, waiters)
            if got != want:
                return (f"{where}: effective_priority() of task {t} is {got}; its own priority and the tasks waiting "
                        f"(transitively) on locks it holds give {want}")
        # every holder on the chain of a waiting task is at least as urgent
        for li, ws in waiters.items():
            owner = st[LOCKS][li][2]
            for (w, _, _) in ws:
                if w is None or w not in prio or owner == -1 or owner not in prio:
                    continue
                ew = Fraction(*st[TASKS][w][6][0])
                eo = Fraction(*st[TASKS][owner][6][0])
                if eo > ew:
                    return f"{where}: task {w} (effective {ew}) waits for lock {li} held by task {owner} (effective {eo})"
        # priority loop: the handle that runs next is at least as urgent as any waiter whose holder is runnable
        if st[READY][0] == 1 and st[READY][1]:
            arr = st[READY][2][4]
            keyof = {e[5]: (e[0], Fraction(*e[1]) + Fraction(*e[2])) for e in arr}
            head = st[READY][1][0]
            hk = keyof.get(head[0])
            live = {h[2]: h[0] for h in st[READY][1] if h[2] >= 0 and not h[1]}
            if hk and hk[0] == 1:
                for li, ws in waiters.items():
                    o = st[LOCKS][li][2]
                    seen = set()
                    while o != -1 and o not in seen and o not in live and st[TASKS][o][4] != -1:
                        seen.add(o)
                        o = st[LOCKS][st[TASKS][o][4]][2]
                    if o == -1 or o not in live or o not in prio:
                        continue
                    for (w, _, _) in ws:
                        if w is None or w not in prio:
                            continue
                        ew = Fraction(*st[TASKS][w][6][0])
                        if hk[1] > ew:
                            return (f"{where}: priority loop would next run handle {head} with priority {hk[1]} although "
                                    f"task {w} (effective {ew}) waits for lock {li} whose holder chain ends in runnable task {o}")
    return None


PROP = Prop(
    pid="C11",
    props_v="theories/Props/C11.v",
    theory_files=["theories/Sched/Model.v", "theories/Sched/Corr.v", "theories/Sched/InheritProofs.v"],
    streams=[make_stream("inherit", gen, oracle)],
    rule="enumerated lock chains of length 1..4 (task i holds lock i and waits for lock i+1; last holder runnable or "
         "blocked on an event) with all priority pairs of two late waiters; chains in which every lock has a second independent waiter and a "
         "runnable bystander competes with the inheriting holder (all urgency orders); plus random programs: 2..6 tasks of "
         "priorities from a small set with ties (ints, floats, Priority enum members, plain tasks) taking 1..3 locks "
         "in a fixed order, sleeping, waiting for an event, with urgent late arrivals; stock, scheduling and "
         "priority loop; non-trivial: >=4 actions of >=3 kinds",
    assumptions=["locks are taken in a fixed order (acyclic wait-for graph), as the property quantifies"],
)
