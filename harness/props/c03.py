"""C03 - Cancelling an eager awaitable always reaches the started coroutine."""
from __future__ import annotations

from ..framework import Prop
from ..sched_props import (READY, FUTS, TASKS, LOG, make_stream, ok_obs)
from . import c01
from .c01 import S, A, SEEN, CLEAN, FIN, PAFTER, JOIN


def gen(rng, tier):
    for _ in range(700 if tier == "quick" else 4000):
        yield c01.gen_case(rng, cancel=True)


def oracle(case, ob):
    if not ok_obs(case, ob):
        return f"runner failed: {ob!r}"[:200]
    nch = case["nchildren"]
    # map child -> future id of its awaitable: the parents' scripts spawn children in order; the
    # awaitable of child c is the (2 + nparents + k)-th future in creation order is not static, so
    # use the log instead: every statement is judged through the child's own markers
    final = ob[-1]
    log = final[LOG]
    pos = {}
    for i, (_, x) in enumerate(log):
        pos.setdefault(x, i)
    drained = not final[READY][1]
    for c in range(nch):
        if S + c not in pos:
            continue
        started_susp = not (FIN + c in pos and PAFTER + c in pos and pos[FIN + c] < pos[PAFTER + c])
        # a started coroutine is never left suspended and unfinished once everything has run
        if drained and FIN + c not in pos:
            return (f"child {c} was started by eager() but its finally clause never ran although the loop was drained: "
                    f"the coroutine was left suspended/unfinished (trace {c01.child_trace(log, c)})")
        # the parent saw CancelledError when joining => the cancellation was raised INSIDE the coroutine
        # (its handler ran) unless the coroutine had finished its try block already
        joined = c01.join_outcomes(log, nch).get(c)
        if joined == 901 and SEEN + c not in pos and (A + c * 10 + 9) not in pos:
            return (f"child {c}: the awaiting parent got CancelledError but the coroutine never saw it "
                    f"(no handler ran; trace {c01.child_trace(log, c)})")
        if SEEN + c in pos and FIN + c in pos and pos[FIN + c] < pos[SEEN + c]:
            return f"child {c}: finally ran before the cancellation handler"
    return None


PROP = Prop(
    pid="C03",
    props_v="theories/Props/C03.v",
    theory_files=["theories/Sched/Model.v", "theories/Sched/Corr.v", "theories/Sched/EagerProofs.v"],
    streams=[make_stream("cancel", gen, oracle)],
    rule="the C01 programs with cancel() of the eager awaitables at every kind of instant: immediately after eager() "
         "returned (no loop step in between), after one loop round, repeated, from the environment between steps, "
         "after the awaited future completed but before the task resumed; handlers log, optionally await and "
         "optionally suppress; three loops; non-trivial: >=4 actions of >=3 kinds",
    assumptions=["runs are drained (shared futures resolved, 30 final steps) so that 'never left suspended' is observable"],
)
