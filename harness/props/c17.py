"""C17 - Priority containers are faithful to their reference models.

Streams: `pq` (asynkit.tools.PriorityQueue, integer priorities, optionally a
priority type that only defines `<`) and `pos` (PosPriorityQueue with boosting
disabled).  The implementation's complete internal array and counters are
observed after every operation and compared in-kernel with the Coq model; an
independent list model (below) is the property oracle."""
from __future__ import annotations

import itertools
import random
from fractions import Fraction

from .. import coqlit as L
from ..framework import Prop, Stream


# ----------------------------------------------------------------------------
# implementation runners
# ----------------------------------------------------------------------------
class LtOnly:
    """a priority type which defines nothing but `<`"""
    __slots__ = ("v",)
    __hash__ = None

    def __init__(self, v):
        self.v = v

    def __lt__(self, other):
        return self.v < other.v

    def __eq__(self, other):  # identity only; must never be used for ordering
        return self is other


def _unwrap(p):
    return p.v if isinstance(p, LtOnly) else p


def pq_state(q):
    return [q._sequence, [[_unwrap(e.priority), e.sequence, e.obj] for e in q._pq]]


def pq_apply(q, op, wrap):
    k = op[0]
    if k == "add":
        q.add(wrap(op[1]), op[2]); return []
    if k == "extend":
        q.extend([(wrap(p), o) for p, o in op[1]]); return []
    if k == "pop":
        return q.pop()
    if k == "popitem":
        p, o = q.popitem(); return [_unwrap(p), o]
    if k == "peek":
        return q.peek()
    if k == "peekitem":
        p, o = q.peekitem(); return [_unwrap(p), o]
    if k == "remove":
        return _unwrap(q.remove(op[1]))
    if k == "find":
        r = q.find(lambda x: x == op[1], bool(op[2]))
        return [] if r is None else [_unwrap(r[0]), r[1]]
    if k == "resched":
        r = q.reschedule(lambda x: x == op[1], wrap(op[2]))
        return [] if r is None else r
    if k == "refresh":
        q.refresh(); return []
    if k == "sort":
        q.sort(); return []
    if k == "clear":
        q.clear(); return []
    if k == "iter":
        return list(q)
    if k == "items":
        return [[_unwrap(p), o] for p, o in q.items()]
    if k == "ordered":
        it = q.ordereditems()
        ys = []
        for _ in range(op[1]):
            try:
                p, o = next(it)
            except StopIteration:
                break
            ys.append([_unwrap(p), o])
        it.close()
        return ys
    if k == "sortedcopy":
        return [[_unwrap(p), o] for p, o in q.sorted().items()]
    if k == "copydrain":
        c = q.copy()
        out = []
        while c:
            p, o = c.popitem()
            out.append([_unwrap(p), o])
        return out
    if k == "len":
        assert bool(q) == (len(q) > 0)
        return len(q)
    raise AssertionError(op)


def impl_pq(case):
    from asynkit.tools import PriorityQueue
    wrap = LtOnly if case.get("ltonly") else (lambda x: x)
    q = PriorityQueue()
    out = []
    for op in case["ops"]:
        try:
            o = [0, pq_apply(q, op, wrap)]
        except IndexError:
            o = [1, 1]
        except ValueError:
            o = [1, 2]
        out.append([o, pq_state(q)])
    return out


def coq_pqop(op):
    k = op[0]
    if k == "add":
        return f"PAdd {L.z(op[1])} {L.z(op[2])}"
    if k == "extend":
        return "PExtend " + L.lst([L.pair(L.z(p), L.z(o)) for p, o in op[1]])
    if k == "remove":
        return f"PRemove {L.z(op[1])}"
    if k == "find":
        return f"PFind {L.z(op[1])} {L.boolean(op[2])}"
    if k == "resched":
        return f"PResched {L.z(op[1])} {L.z(op[2])}"
    if k == "ordered":
        return f"POrdered {L.nat(op[1])}"
    return {"pop": "PPop", "popitem": "PPopItem", "peek": "PPeek", "peekitem": "PPeekItem",
            "refresh": "PRefresh", "sort": "PSort", "clear": "PClear", "iter": "PIter",
            "items": "PItems", "sortedcopy": "PSortedCopy", "copydrain": "PCopyDrain",
            "len": "PLen"}[k]


def coq_pq(case):
    return L.lst([coq_pqop(op) for op in case["ops"]])


# ----------------------------------------------------------------------------
# reference list model + oracle for PriorityQueue
# ----------------------------------------------------------------------------
class RefPQ:
    """items as [pri, arrival, obj]; pop order = sorted by (pri, arrival)"""

    def __init__(self):
        self.items = []
        self.arrival = 0

    def sorted(self):
        return sorted(self.items, key=lambda e: (e[0], e[1]))

    def live(self):
        return [e[2] for e in sorted(self.items, key=lambda e: e[1])]

    def add(self, p, o):
        self.items.append([p, self.arrival, o]); self.arrival += 1

    def entry(self, o):
        for e in self.items:
            if e[2] == o:
                return e
        return None


def is_heap(keys):
    return all(not (keys[i] < keys[(i - 1) // 2]) for i in range(1, len(keys)))


def oracle_pq(case, ob):
    ref = RefPQ()
    if not isinstance(ob, list) or len(ob) != len(case["ops"]):
        return f"runner failed: {ob!r}"[:300]
    for step, (op, (res, state)) in enumerate(zip(case["ops"], ob)):
        k = op[0]
        where = f"step {step} {op}"
        exp_err = None
        s = ref.sorted()
        if k == "add":
            ref.add(op[1], op[2]); exp = [0, []]
        elif k == "extend":
            for p, o in op[1]:
                ref.add(p, o)
            exp = [0, []]
        elif k in ("pop", "popitem", "peek", "peekitem"):
            if not s:
                exp = [1, 1]
            else:
                e = s[0]
                exp = [0, e[2] if k in ("pop", "peek") else [e[0], e[2]]]
                if k.startswith("pop"):
                    ref.items.remove(e)
        elif k == "remove":
            e = ref.entry(op[1])
            if e is None:
                exp = [1, 2]
            else:
                exp = [0, e[0]]; ref.items.remove(e)
        elif k == "find":
            e = ref.entry(op[1])
            exp = [0, [] if e is None else [e[0], e[2]]]
            if e is not None and op[2]:
                ref.items.remove(e)
        elif k == "resched":
            e = ref.entry(op[1])
            exp = [0, [] if e is None else e[2]]
            if e is not None:
                e[0] = op[2]
        elif k in ("refresh", "sort"):
            exp = [0, []]
        elif k == "clear":
            ref.items = []; exp = [0, []]
        elif k == "iter":
            exp = None
            if res[0] != 0 or sorted(res[1]) != sorted(e[2] for e in s):
                return f"{where}: iteration lost/duplicated items: {res}"
        elif k == "items":
            exp = None
            if res[0] != 0 or sorted(res[1]) != sorted([e[0], e[2]] for e in s):
                return f"{where}: items() lost/duplicated items: {res}"
        elif k == "ordered":
            exp = [0, [[e[0], e[2]] for e in s[:op[1]]]]
        elif k in ("sortedcopy", "copydrain"):
            exp = [0, [[e[0], e[2]] for e in s]]
        elif k == "len":
            exp = [0, len(s)]
        if exp is not None and res != exp:
            return f"{where}: result {res} but the list model says {exp}"
        # contents, heap shape, sequence numbers
        seqn, arr = state
        got = sorted([p, o] for p, _, o in arr)
        want = sorted([e[0], e[2]] for e in ref.items)
        if got != want:
            return f"{where}: queue contents {got} differ from the list model {want}"
        keys = [(p, sq) for p, sq, _ in arr]
        if not is_heap(keys):
            return f"{where}: internal array is not a heap: {arr}"
        seqs = [sq for _, sq, _ in arr]
        if len(set(seqs)) != len(seqs) or any(sq >= seqn for sq in seqs):
            return f"{where}: sequence numbers not unique/below _sequence: {state}"
        # arrival order among equal priorities is what the sequence numbers must encode
        order_impl = [o for p, sq, o in sorted(arr, key=lambda t: (t[0], t[1]))]
        order_ref = [e[2] for e in ref.sorted()]
        if order_impl != order_ref:
            return f"{where}: pop order would be {order_impl}, list model says {order_ref}"
    return None


# ----------------------------------------------------------------------------
# generators for PriorityQueue
# ----------------------------------------------------------------------------
PRIS = (-1, 0, 1)


def pq_alphabet(ref: RefPQ, nextobj: int):
    """operations available in the current reference state (targets = i-th live item)"""
    ops = [["add", p, nextobj] for p in PRIS]
    ops.append(["extend", [[1, nextobj], [-1, nextobj + 1], [1, nextobj + 2]]])
    ops += [["pop"], ["peekitem"], ["copydrain"]]
    live = ref.live()
    n = len(live)
    for o in live[:3] + ([nextobj + 50] if True else []):
        ops.append(["remove", o])
        ops.append(["find", o, True])
    for o in live[:3]:
        for p in (-1, 1):
            ops.append(["resched", o, p])
    for k in sorted({0, 1, 2, max(n // 2, 1), n, n + 1}):
        ops.append(["ordered", k])
    return ops


def ref_apply(ref: RefPQ, op):
    k = op[0]
    s = ref.sorted()
    if k == "add":
        ref.add(op[1], op[2])
    elif k == "extend":
        for p, o in op[1]:
            ref.add(p, o)
    elif k in ("pop", "popitem") and s:
        ref.items.remove(s[0])
    elif k == "remove" or (k == "find" and op[2]):
        e = ref.entry(op[1])
        if e is not None:
            ref.items.remove(e)
    elif k == "resched":
        e = ref.entry(op[1])
        if e is not None:
            e[0] = op[2]
    elif k == "clear":
        ref.items = []


def nextobj_after(ops):
    n = 1
    for op in ops:
        if op[0] == "add":
            n = max(n, op[2] + 1)
        elif op[0] == "extend":
            n = max([n] + [o + 1 for _, o in op[1]])
    return n


def enum_pq(depth, prefix_ops=()):
    """all operation sequences of the given depth after a fixed prefix"""
    def rec(ops, ref, d):
        if d == 0:
            yield list(ops)
            return
        for op in pq_alphabet(ref, nextobj_after(ops)):
            r2 = RefPQ(); r2.items = [list(e) for e in ref.items]; r2.arrival = ref.arrival
            ref_apply(r2, op)
            yield from rec(ops + [op], r2, d - 1)
    ref = RefPQ()
    for op in prefix_ops:
        ref_apply(ref, op)
    yield from rec(list(prefix_ops), ref, depth)


def random_pq_ops(rng: random.Random, n: int):
    ref = RefPQ()
    ops = []
    nxt = 1
    for _ in range(n):
        live = ref.live()
        r = rng.random()
        if r < 0.32 or not live:
            op = ["add", rng.choice(PRIS + (2, -2)) if rng.random() < 0.9 else rng.randint(-5, 5), nxt]; nxt += 1
        elif r < 0.36:
            k = rng.randint(0, 4)
            op = ["extend", [[rng.choice(PRIS), nxt + i] for i in range(k)]]; nxt += k
        elif r < 0.50:
            op = [rng.choice(["pop", "popitem"])]
        elif r < 0.55:
            op = [rng.choice(["peek", "peekitem", "len", "iter", "items", "sortedcopy", "copydrain"])]
        elif r < 0.65:
            op = ["remove", rng.choice(live) if rng.random() < 0.9 else nxt + 100]
        elif r < 0.75:
            op = ["find", rng.choice(live) if rng.random() < 0.9 else nxt + 100, rng.random() < 0.6]
        elif r < 0.87:
            op = ["resched", rng.choice(live) if rng.random() < 0.95 else nxt + 100, rng.choice(PRIS + (2, -2))]
        elif r < 0.96:
            op = ["ordered", rng.choice([0, 1, 2, len(live) // 3, len(live) // 2, len(live) // 2 + 1, len(live), len(live) + 1])]
        elif r < 0.98:
            op = [rng.choice(["refresh", "sort"])]
        else:
            op = ["clear"]
        ref_apply(ref, op)
        ops.append(op)
    return ops


def gen_pq(rng: random.Random, tier: str):
    depth = 3 if tier == "quick" else 4
    # bounded-exhaustive from the empty queue and from a 5-element queue with ties
    for ops in enum_pq(depth):
        yield {"ops": ops}
    warm = [["add", 0, 1], ["add", 1, 2], ["add", 0, 3], ["add", -1, 4], ["add", 1, 5]]
    for ops in enum_pq(2 if tier == "quick" else 3, warm):
        yield {"ops": ops}
    nrand = 300 if tier == "quick" else 4000
    for i in range(nrand):
        n = rng.choice([8, 20, 40, 80]) if tier == "quick" else rng.choice([10, 40, 120, 400])
        yield {"ops": random_pq_ops(rng, n), "ltonly": i % 3 == 0}


def shrink_ops(case):
    ops = case["ops"]
    for i in range(len(ops)):
        c = dict(case); c["ops"] = ops[:i] + ops[i + 1:]
        yield c


# ----------------------------------------------------------------------------
# PosPriorityQueue: implementation runner
# ----------------------------------------------------------------------------
class FakeRandom:
    def __init__(self, draws):
        self.draws = list(draws)

    def random(self):
        return float(self.draws.pop(0)) if self.draws else 0.0


def fr(x):
    return Fraction(x[0], x[1]) if isinstance(x, (list, tuple)) else Fraction(x)


def pos_state(q):
    arr = []
    for e in q._pq._pq:
        pv = e.priority
        arr.append([pv.priority_class, L.qobs(pv.base_priority), L.qobs(pv.priority_boost),
                    pv.inserted_at, e.sequence, e.obj])
    return [q.last_maintenance, q.n_inserted, q.n_removed, q._pq._sequence, arr]


def impl_pos(case):
    import asynkit.experimental.priority as prio
    table = {}
    q = prio.PosPriorityQueue(lambda o: table.get(o, 0.0))
    q.priority_boost_factor = float(fr(case["factor"]))
    saved = prio.random
    prio.random = FakeRandom([fr(d) for d in case["draws"]])
    out = []
    try:
        for op in case["ops"]:
            k = op[0]
            try:
                r = []
                if k == "append":
                    table[op[1]] = float(fr(op[2])); q.append(op[1])
                elif k == "append_pri":
                    table[op[1]] = float(fr(op[2])); q.append_pri(op[1], float(fr(op[2])))
                elif k == "insert":
                    q.insert(op[1], op[2])
                elif k == "popleft":
                    r = q.popleft()
                elif k == "remove":
                    q.remove(op[1])
                elif k == "find":
                    x = q.find(lambda h: h == op[1], bool(op[2])); r = [] if x is None else x
                elif k == "resched":
                    x = q.reschedule(lambda h: h == op[1], float(fr(op[2]))); r = [] if x is None else x
                elif k == "resched_all":
                    table.clear()
                    for o, p in op[1]:
                        table[o] = float(fr(p))
                    q.reschedule_all()
                elif k == "clear":
                    q.clear()
                elif k == "iter":
                    r = list(q)
                elif k == "len":
                    assert bool(q) == (len(q) > 0)
                    r = len(q)
                else:
                    raise AssertionError(op)
                o = [0, r]
            except IndexError:
                o = [1, 1]
            except ValueError:
                o = [1, 2]
            out.append([o, pos_state(q)])
    finally:
        prio.random = saved
    return out


def coq_posop(op):
    k = op[0]
    if k == "append":
        return f"QAppend {L.z(op[1])} {L.q(fr(op[2]))}"
    if k == "append_pri":
        return f"QAppendPri {L.z(op[1])} {L.q(fr(op[2]))}"
    if k == "insert":
        return f"QInsert {L.nat(op[1])} {L.z(op[2])}"
    if k == "remove":
        return f"QRemove {L.z(op[1])}"
    if k == "find":
        return f"QFind {L.z(op[1])} {L.boolean(op[2])}"
    if k == "resched":
        return f"QResched {L.z(op[1])} {L.q(fr(op[2]))}"
    if k == "resched_all":
        return "QReschedAll " + L.lst([L.pair(L.z(o), L.q(fr(p))) for o, p in op[1]])
    return {"popleft": "QPopleft", "clear": "QClear", "iter": "QIter", "len": "QLen"}[k]


def coq_pos(case):
    return ("(" + L.q(fr(case["factor"])) + ", " + L.lst([L.q(fr(d)) for d in case["draws"]])
            + ", " + L.lst([coq_posop(op) for op in case["ops"]]) + ")")


# ----------------------------------------------------------------------------
# reference list model for PosPriorityQueue (boosting disabled)
# ----------------------------------------------------------------------------
class RefPos:
    """positional prefix (objects, in order) + regular entries by (priority, arrival).
    `free` holds unordered pairs of regular entries whose relative order among
    equal priorities the property leaves unspecified (after reschedule)."""

    def __init__(self):
        self.posl = []
        self.reg = {}        # obj -> [pri, arrival]
        self.arrival = 0
        self.free = set()

    def clone(self):
        r = RefPos()
        r.posl = list(self.posl); r.reg = {k: list(v) for k, v in self.reg.items()}
        r.arrival = self.arrival; r.free = set(self.free)
        return r

    def __len__(self):
        return len(self.posl) + len(self.reg)

    def objs(self):
        return list(self.posl) + list(self.reg)

    def candidates(self):
        if self.posl:
            return [self.posl[0]]
        if not self.reg:
            return []
        mp = min(v[0] for v in self.reg.values())
        grp = [o for o, v in self.reg.items() if v[0] == mp]
        out = []
        for o in grp:
            blocked = any(self.reg[f][1] < self.reg[o][1] and frozenset((o, f)) not in self.free
                          for f in grp if f != o)
            if not blocked:
                out.append(o)
        return out

    def drop(self, o):
        if o in self.posl:
            self.posl.remove(o)
        else:
            del self.reg[o]
        self.free = {p for p in self.free if o not in p}

    def check_order(self, seq):
        """is `seq` a possible complete pop order?"""
        r = self.clone()
        for i, o in enumerate(seq):
            if o not in r.candidates():
                return f"position {i}: got {o}, allowed {r.candidates()}"
            r.drop(o)
        if len(r):
            return f"missing items {r.objs()}"
        return None

    def append(self, o, p):
        self.reg[o] = [p, self.arrival]; self.arrival += 1

    def full_order_one(self):
        """one admissible order (used to pick promoted entries when unambiguous)"""
        r = self.clone(); out = []
        while len(r):
            c = r.candidates()
            out.append((c[0], len(c)))
            r.drop(c[0])
        return out

    def insert(self, k, o):
        """returns False if the outcome is not determined by the property (ambiguous promotion)"""
        order = self.full_order_one()
        promoted = order[:k]
        if any(n > 1 for _, n in promoted):
            return False
        prom = [x for x, _ in promoted]
        rest_pos = [x for x in self.posl if x not in prom]
        for x in prom:
            if x in self.reg:
                del self.reg[x]
                self.free = {p for p in self.free if x not in p}
        self.posl = prom + [o] + rest_pos
        return True


def oracle_pos(case, ob):
    if not isinstance(ob, list) or len(ob) != len(case["ops"]):
        return f"runner failed: {ob!r}"[:300]
    ref = RefPos()
    for step, (op, (res, state)) in enumerate(zip(case["ops"], ob)):
        k = op[0]
        where = f"step {step} {op}"
        exp = [0, []]
        if k in ("append", "append_pri"):
            ref.append(op[1], fr(op[2]))
        elif k == "insert":
            if not ref.insert(op[1], op[2]):
                return None      # order unspecified from here on: stop comparing
        elif k == "popleft":
            c = ref.candidates()
            if not c:
                exp = [1, 1]
            else:
                if res[0] != 0 or res[1] not in c:
                    return f"{where}: popped {res}, the list model allows {c}"
                ref.drop(res[1]); exp = None
        elif k == "remove":
            if op[1] in ref.objs():
                ref.drop(op[1])
            else:
                exp = [1, 2]
        elif k == "find":
            if op[1] in ref.objs():
                exp = [0, op[1]]
                if op[2]:
                    ref.drop(op[1])
        elif k == "resched":
            if op[1] in ref.reg:
                exp = [0, op[1]]
                ref.reg[op[1]][0] = fr(op[2])
                for f in ref.reg:
                    if f != op[1]:
                        ref.free.add(frozenset((f, op[1])))
            elif op[1] in ref.posl:
                return None      # re-prioritising a positional entry is C10's subject
        elif k == "resched_all":
            new = dict((o, fr(p)) for o, p in op[1])
            old = {o: v[0] for o, v in ref.reg.items()}
            for o in ref.reg:
                ref.reg[o][0] = new.get(o, Fraction(0))
            for a, b in itertools.combinations(list(ref.reg), 2):
                if old[a] != old[b]:
                    ref.free.add(frozenset((a, b)))
        elif k == "clear":
            ref = RefPos()
        elif k == "iter":
            exp = None
            if res[0] != 0:
                return f"{where}: iteration raised {res}"
            m = ref.check_order(res[1])
            if m:
                return f"{where}: iteration order {res[1]} not the list model's: {m}"
        elif k == "len":
            exp = [0, len(ref)]
        if exp is not None and res != exp:
            return f"{where}: result {res} but the list model says {exp}"
        arr = state[4]
        if sorted(e[5] for e in arr) != sorted(ref.objs()):
            return f"{where}: contents {sorted(e[5] for e in arr)} differ from the list model {sorted(ref.objs())}"
        keys = [(e[0], Fraction(*e[1]) + Fraction(*e[2]), e[4]) for e in arr]
        if not is_heap(keys):
            return f"{where}: internal array is not a heap"
        if len({e[4] for e in arr}) != len(arr):
            return f"{where}: duplicate sequence numbers"
        # the order in which the implementation would now pop everything
        order_impl = [e[5] for e in sorted(arr, key=lambda e: (e[0], Fraction(*e[1]) + Fraction(*e[2]), e[4]))]
        m = ref.check_order(order_impl)
        if m:
            return f"{where}: pop order would be {order_impl}; list model: {m}"
    return None


def pos_alphabet(ref: RefPos, nxt: int, with_resched=True):
    ops = [["append", nxt, [p, 1]] for p in PRIS]
    n = len(ref)
    for k in sorted({0, 1, 2, n, n + 1}):
        ops.append(["insert", k, nxt])
    ops.append(["popleft"])
    objs = ref.objs()
    for o in objs[:2] + objs[-1:]:
        ops.append(["remove", o])
        ops.append(["find", o, True])
    if with_resched:
        for o in list(ref.reg)[:2]:
            ops.append(["resched", o, [-1, 1]])
        ops.append(["resched_all", [[o, [(i % 3) - 1, 1]] for i, o in enumerate(sorted(ref.reg))]])
        ops.append(["resched_all", [[o, [0, 1]] for o in sorted(ref.reg)]])
    ops.append(["iter"])
    return ops


def refpos_apply(ref: RefPos, op):
    k = op[0]
    if k in ("append", "append_pri"):
        ref.append(op[1], fr(op[2]))
    elif k == "insert":
        ref.insert(op[1], op[2])
    elif k == "popleft":
        c = ref.candidates()
        if c:
            ref.drop(c[0])
    elif k == "remove" or (k == "find" and op[2]):
        if op[1] in ref.objs():
            ref.drop(op[1])
    elif k == "resched" and op[1] in ref.reg:
        ref.reg[op[1]][0] = fr(op[2])
    elif k == "resched_all":
        new = dict((o, fr(p)) for o, p in op[1])
        for o in ref.reg:
            ref.reg[o][0] = new.get(o, Fraction(0))
    elif k == "clear":
        ref.__init__()


def enum_pos(depth, prefix=()):
    def nxt(ops):
        n = 1
        for op in ops:
            if op[0] in ("append", "append_pri"):
                n = max(n, op[1] + 1)
            elif op[0] == "insert":
                n = max(n, op[2] + 1)
        return n

    def rec(ops, ref, d):
        if d == 0:
            yield list(ops); return
        for op in pos_alphabet(ref, nxt(ops)):
            r2 = ref.clone(); refpos_apply(r2, op)
            yield from rec(ops + [op], r2, d - 1)
    ref = RefPos()
    for op in prefix:
        refpos_apply(ref, op)
    yield from rec(list(prefix), ref, depth)


def random_pos_ops(rng, n, pris=PRIS, resched=True, p_pop=0.25):
    ref = RefPos(); ops = []; nxt = 1
    for _ in range(n):
        objs = ref.objs()
        r = rng.random()
        if r < 0.30 or not objs:
            op = ["append" if rng.random() < 0.8 else "append_pri", nxt, [rng.choice(pris), 1]]; nxt += 1
        elif r < 0.42:
            op = ["insert", rng.choice([0, 0, 1, 1, 2, 3, len(objs), len(objs) + 1]), nxt]; nxt += 1
        elif r < 0.42 + p_pop:
            op = ["popleft"]
        elif r < 0.73:
            op = ["remove", rng.choice(objs) if rng.random() < 0.9 else nxt + 100]
        elif r < 0.80:
            op = ["find", rng.choice(objs) if rng.random() < 0.9 else nxt + 100, rng.random() < 0.5]
        elif r < 0.88 and resched and ref.reg:
            op = ["resched", rng.choice(list(ref.reg)), [rng.choice(pris), 1]]
        elif r < 0.94 and resched:
            op = ["resched_all", [[o, [rng.choice(pris), 1]] for o in sorted(ref.reg) if rng.random() < 0.8]]
        elif r < 0.98:
            op = [rng.choice(["iter", "len"])]
        else:
            op = ["clear"]
        refpos_apply(ref, op)
        ops.append(op)
    return ops


def gen_pos(rng, tier):
    depth = 3 if tier == "quick" else 4
    for ops in enum_pos(depth):
        yield {"factor": [0, 1], "draws": [], "ops": ops}
    warm = [["append", 1, [0, 1]], ["append", 2, [1, 1]], ["insert", 0, 3], ["append", 4, [0, 1]],
            ["insert", 1, 5], ["append", 6, [-1, 1]]]
    for ops in enum_pos(2 if tier == "quick" else 3, warm):
        yield {"factor": [0, 1], "draws": [], "ops": ops}
    for i in range(300 if tier == "quick" else 4000):
        n = rng.choice([8, 20, 40, 80] if tier == "quick" else [10, 40, 120, 400])
        yield {"factor": [0, 1], "draws": [], "ops": random_pos_ops(rng, n)}


def nontrivial(case, ob):
    kinds = {op[0] for op in case["ops"]}
    return len(case["ops"]) >= 2 and len(kinds) >= 2


def signature(stream, case, msg):
    return None


PROP = Prop(
    pid="C17",
    props_v="theories/Props/C17.v",
    theory_files=["theories/Queue/HeapqModel.v", "theories/Queue/PQ.v", "theories/Queue/PosPQ.v",
                  "theories/Queue/Exec.v", "theories/Queue/PQCorr.v", "theories/Queue/Order.v",
                  "theories/Queue/PQProofs.v"],
    streams=[
        Stream(name="pq", imports=["Queue.PQCorr"], run="pq_run", input_type="list pqop",
               gen=gen_pq, impl=impl_pq, to_coq=coq_pq, oracle=oracle_pq, nontrivial=nontrivial,
               shrink=shrink_ops, corr_name="PriorityQueue"),
        Stream(name="pos", imports=["Queue.PQCorr"], run="pos_run",
               input_type="Q * list Q * list posop",
               gen=gen_pos, impl=impl_pos, to_coq=coq_pos, oracle=oracle_pos, nontrivial=nontrivial,
               shrink=shrink_ops, corr_name="PosPriorityQueue"),
    ],
    rule="bounded-exhaustive operation sequences (alphabet depends on the reference state: targets are "
         "the i-th live item, positions 0..len+1, priorities -1/0/1) from the empty queue and from a warm "
         "queue with ties, plus random histories; a case is non-trivial when it has >=2 operations of >=2 "
         "kinds; distinct = distinct canonical JSON of the input",
    signature=signature,
    assumptions=["heapq is modelled by HeapqModel.v (transcription of CPython's heapq.py; the C accelerator "
                 "implements the same algorithm for n <= 2500)",
                 "theorems are stated for every heap implementation satisfying HeapSpec and every strict weak "
                 "order on priorities; objects in a queue are pairwise distinct"],
)
