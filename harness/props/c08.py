"""C08 - Ready-queue operations follow list semantics on every supported loop.

Streams
  deque  the deque-level helpers (tools.deque_pop, default.queue_find,
         default.queue_remove, default.call_pos, deque.insert/rotate) on real
         collections.deque objects; oracle = Python list semantics.
  loop   multi-task programs on the three real event loops, single-stepped by
         harness/steploop.World (see harness/c08_loop.py); oracle = an
         independent plain-list model of what the property states.
"""
from __future__ import annotations

import collections
import random

from .. import coqlit as L
from ..framework import Prop, Stream
from .. import c08_loop as LP


# ----------------------------------------------------------------------------
# stream `deque`
# ----------------------------------------------------------------------------
class H:
    """a stand-in for a Handle: identity matters, `v` is its id"""
    __slots__ = ("v",)

    def __init__(self, v):
        self.v = v


class FakeLoop:
    """just enough of a loop for default.call_pos: call_soon appends a new handle"""

    def __init__(self, dq, objs):
        self._ready = dq
        self.objs = objs
        self.next_id = None

    def call_soon(self, callback, *args, context=None):
        h = self.objs.setdefault(self.next_id, H(self.next_id))
        self._ready.append(h)
        return h


def impl_deque(case):
    from asynkit.loop import default
    from asynkit.tools import deque_pop
    objs = {}

    def obj(i):
        if i not in objs:
            objs[i] = H(i)
        return objs[i]

    d = collections.deque(obj(i) for i in case["d"])
    loop = FakeLoop(d, objs)
    out = []
    for op in case["ops"]:
        k = op[0]
        try:
            r = []
            if k == "pop":
                r = deque_pop(d, op[1]).v
            elif k == "find":
                m, rr = op[1], op[2]
                x = default.queue_find(d, lambda h: h.v % m == rr, bool(op[3]))
                r = [] if x is None else [x.v]
            elif k == "remove":
                default.queue_remove(d, obj(op[1]))
            elif k == "call_pos":
                loop.next_id = op[2]
                r = default.call_pos(loop, op[1], lambda: None).v
            elif k == "insert":
                d.insert(op[1], obj(op[2]))
            elif k == "rotate":
                d.rotate(op[1])
            elif k == "append":
                d.append(obj(op[1]))
            elif k == "popleft":
                r = d.popleft().v
            elif k == "popright":
                r = d.pop().v
            else:
                raise RuntimeError(op)
            o = [0, r]
        except IndexError:
            o = [1, 1]
        except ValueError:
            o = [1, 2]
        except AssertionError:
            o = [1, 3]
        out.append([o, [h.v for h in d]])
    return out


def coq_dop(op):
    k = op[0]
    if k == "pop":
        return f"DPop {L.z(op[1])}"
    if k == "find":
        return f"DFind {L.z(op[1])} {L.z(op[2])} {L.boolean(op[3])}"
    if k == "remove":
        return f"DRemove {L.z(op[1])}"
    if k == "call_pos":
        return f"DCallPos {L.z(op[1])} {L.z(op[2])}"
    if k == "insert":
        return f"DInsert {L.z(op[1])} {L.z(op[2])}"
    if k == "rotate":
        return f"DRotate {L.z(op[1])}"
    if k == "append":
        return f"DAppend {L.z(op[1])}"
    return {"popleft": "DPopleft", "popright": "DPopRight"}[k]


def coq_deque(case):
    return L.pair(L.lst([L.z(x) for x in case["d"]]), L.lst([coq_dop(op) for op in case["ops"]]))


def oracle_deque(case, ob):
    """Python list semantics: list.pop(pos), list.insert(pos, x), last match."""
    if not isinstance(ob, list) or len(ob) != len(case["ops"]):
        return f"runner failed: {ob!r}"[:300]
    ref = list(case["d"])
    for step, (op, (res, contents)) in enumerate(zip(case["ops"], ob)):
        k = op[0]
        where = f"step {step} {op} on {ref}"
        before = list(ref)
        try:
            exp = [0, []]
            if k == "pop":
                exp = [0, ref.pop(op[1])]
            elif k == "find":
                idx = [i for i, v in enumerate(ref) if v % op[1] == op[2]]
                if idx:
                    exp = [0, [ref[idx[-1]]]]
                    if op[3]:
                        del ref[idx[-1]]
            elif k == "remove":
                idx = [i for i, v in enumerate(ref) if v == op[1]]
                if not idx:
                    raise ValueError
                del ref[idx[-1]]
            elif k == "call_pos":
                ref.insert(op[1], op[2]); exp = [0, op[2]]
            elif k == "insert":
                ref.insert(op[1], op[2])
            elif k == "rotate":
                if ref:
                    n = op[1] % len(ref)
                    ref = ref[len(ref) - n:] + ref[:len(ref) - n]
            elif k == "append":
                ref.append(op[1])
            elif k == "popleft":
                exp = [0, ref.pop(0)]
            elif k == "popright":
                exp = [0, ref.pop()]
        except IndexError:
            exp = [1, 1]; ref = before
        except ValueError:
            exp = [1, 2]; ref = before
        if res != exp:
            return f"{where}: result {res}, list semantics say {exp}"
        if contents != ref:
            return f"{where}: contents {contents}, list semantics say {ref}"
    return None


def gen_deque(rng: random.Random, tier: str):
    # bounded-exhaustive: every length 0..8 (12 thorough) x every position -len-2..len+2
    maxlen = 8 if tier == "quick" else 12
    for n in range(maxlen + 1):
        d = list(range(10, 10 + n))
        for pos in range(-n - 2, n + 3):
            yield {"d": d, "ops": [["pop", pos]]}
            yield {"d": d, "ops": [["call_pos", pos, 99]]}
            yield {"d": d, "ops": [["insert", pos, 99]]}
            yield {"d": d, "ops": [["rotate", pos]]}
            # two pops in a row (the second one on the rotated-back deque)
            yield {"d": d, "ops": [["pop", pos], ["pop", -pos]]}
        for h in list(range(10, 10 + n)) + [7]:
            yield {"d": d, "ops": [["remove", h]]}
        for m in (1, 2, 3):
            for r in range(m):
                for rm in (False, True):
                    yield {"d": d, "ops": [["find", m, r, rm]]}
        # the same object twice in the deque
        for i in range(n):
            for j in range(n):
                dd = list(d); dd[j] = d[i]
                yield {"d": dd, "ops": [["remove", d[i]], ["find", 2, d[i] % 2, True]]}
    # random histories on deques up to 64 (256) long
    nrand = 400 if tier == "quick" else 4000
    top = 64 if tier == "quick" else 256
    for _ in range(nrand):
        n = rng.choice([0, 1, 2, 3, 4, 5, 7, 8, 9, 15, 16, 17, 31, 33, top - 1, top])
        d = [rng.randrange(0, 40) if rng.random() < 0.2 else 100 + i for i in range(n)]
        ops = []
        ln = n
        nxt = 1000
        for _ in range(rng.choice([1, 3, 8, 20])):
            r = rng.random()
            if r < 0.35:
                pos = rng.randint(-ln - 2, ln + 2)
                ops.append(["pop", pos])
                if -ln <= pos < ln:
                    ln -= 1
            elif r < 0.5:
                ops.append(["call_pos", rng.randint(-ln - 2, ln + 2), nxt]); nxt += 1; ln += 1
            elif r < 0.6:
                ops.append(["insert", rng.randint(-ln - 2, ln + 2), nxt]); nxt += 1; ln += 1
            elif r < 0.75:
                m = rng.choice([1, 2, 3, 5, 50])
                ops.append(["find", m, rng.randrange(m), rng.random() < 0.7])
            elif r < 0.9:
                ops.append(["remove", rng.choice(d + [nxt - 1, 5]) if d else 5])
            elif r < 0.95:
                ops.append(["rotate", rng.randint(-2 * ln - 2, 2 * ln + 2)])
            else:
                ops.append([rng.choice(["popleft", "popright"])])
        yield {"d": d, "ops": ops}


def shrink_deque(case):
    ops = case["ops"]
    for i in range(len(ops)):
        if len(ops) > 1:
            yield {"d": case["d"], "ops": ops[:i] + ops[i + 1:]}
    d = case["d"]
    for i in range(len(d)):
        yield {"d": d[:i] + d[i + 1:], "ops": ops}


def nontrivial_deque(case, ob):
    return len(case["d"]) >= 1


# ----------------------------------------------------------------------------
def signature(stream, case, msg):
    return None


PROP = Prop(
    pid="C08",
    props_v="theories/Props/C08.v",
    theory_files=["theories/Queue/Deque.v", "theories/Queue/DequeProofs.v", "theories/Queue/DequeCorr.v",
                  "theories/Sched/ListLoop.v", "theories/Sched/ListLoopCorr.v",
                  "theories/Sched/ListLoopProofs.v", "theories/Sched/ExactlyOnce.v", "theories/Sched/PosIso.v"],
    streams=[
        Stream(name="deque", imports=["Queue.DequeCorr"], run="deque_run", input_type="list Z * list dop",
               gen=gen_deque, impl=impl_deque, to_coq=coq_deque, oracle=oracle_deque,
               nontrivial=nontrivial_deque, shrink=shrink_deque, corr_name="deque helpers"),
        Stream(name="loop", imports=["Sched.ListLoop", "Sched.ListLoopCorr"], run="loop_run", input_type=LP.INPUT_TYPE,
               gen=LP.gen_loop, impl=LP.impl_loop, to_coq=LP.coq_loop, oracle=LP.oracle_loop,
               nontrivial=LP.nontrivial_loop, shrink=LP.shrink_loop, describe=LP.describe_loop,
               corr_name="ready queue on the three loops"),
    ],
    rule="deque: every deque length 0..8 x every position -len-2..len+2 for deque_pop/call_pos/insert/rotate, "
         "every remove target, find keys h%m==r for m<=3, duplicated objects, plus random operation histories on "
         "deques up to 64 long; loop: see harness/c08_loop.py (bounded-exhaustive short two/three-task programs over "
         "the scheduling alphabet on each of the three loops, plus random programs); non-trivial = non-empty deque / "
         "program with >=2 tasks and >=1 positional operation; distinct = distinct canonical JSON of the input",
    signature=signature,
    assumptions=["collections.deque (rotate/popleft/pop/append/insert) is modelled on lists, not verified",
                 "asyncio Task stepping (call_soon(__step) on a bare yield, __wakeup via future callbacks, "
                 "asyncio.Event) is modelled, not verified; tied by the per-step correspondence on the real loops",
                 "priority loop: all priorities equal (plain asyncio.Task => 0.0), boost factor 0"],
)
