"""C12 - PriorityLock hands over in effective-priority order."""
from __future__ import annotations

from fractions import Fraction

from ..framework import Prop
from ..sched_props import (READY, FUTS, TASKS, LOCKS, make_stream, ok_obs)
from . import c11


def _sleeps(n, rest):
    return rest if n == 0 else ["do", ["sleep0"], _sleeps(n - 1, rest)]


def leave_cases(tier):
    """a queued lock-holder loses inherited priority because the waiter it inherited from LEAVES
    (cancelled, or interrupted by task_throw) before the hand-over: H holds L0 (blocked on an event);
    W1 holds L1 and queues on L0; W2 queues on L0; a chain C_depth .. C_1 builds up behind L1
    (C_k holds L_{k+1} and queues on L_k), the far end being urgent; after j steps one chain task is
    made to leave; then H releases.  The hand-over must follow the effective priorities of that moment."""
    sect = c11.sect
    for loop in ("stock", "prio"):
        for depth in ((1, 2) if tier == "quick" else (1, 2, 3)):
            for (pw1, pw2, px) in ((5, 3, -5), (5, 3, 0), (3, 3, -5), (5, 4, 4), (2, 5, -5), (5, 3, 4)):
                for j in ((0, 2) if tier == "quick" else (0, 1, 2, 3)):
                    for victim in range(depth):
                        for fault in ("cancel", "throw"):
                            h = sect(0, ["do", ["eventwait", 0], ["end"]])
                            acts = [["spawn", ["prio", [7, 1]], h], ["step"],
                                    ["spawn", ["prio", [pw1, 1]], sect(1, sect(0, _sleeps(1, ["end"])))], ["step"],
                                    ["spawn", ["prio", [pw2, 1]], sect(0, _sleeps(1, ["end"]))], ["step"]]
                            ids, tid = {}, 3
                            for k in range(depth, 0, -1):
                                body = (sect(k, _sleeps(1, ["end"])) if k == depth
                                        else sect(k + 1, sect(k, _sleeps(1, ["end"]))))
                                if k == depth and fault == "throw":
                                    how = ["py"]          # task_throw needs a Python task; it counts as priority 0
                                else:
                                    how = ["prio", [px if k == depth else 6, 1]]
                                acts += [["spawn", how, body], ["step"]]
                                ids[k] = tid
                                tid += 1
                            if fault == "throw" and victim + 1 != depth:
                                continue
                            acts += [["step"]] * j
                            v = ids[victim + 1]
                            acts.append(["do", ["cancel", v]] if fault == "cancel"
                                        else ["do", ["throw", v, ["user", 1]]])
                            acts += [["step"]] * 2 + [["do", ["eventset", 0]]] + [["step"]] * (14 + 4 * depth)
                            yield {"loop": loop, "locks": ["prio"] * (depth + 2), "conds": [], "events": 1, "acts": acts}


def late_wait_cases(tier):
    """a task that ALREADY inherits priority when it begins to wait: W1 holds L1 and sleeps; the urgent X queues
    on L1 (W1 inherits); only then W1 goes on to acquire L0 (held by H), where W2 is queued before or after it;
    H releases.  The entry W1 files must carry its effective, not its own, priority."""
    sect = c11.sect
    for loop in ("stock", "prio"):
        for (pw1, pw2, px) in ((5, 3, -5), (5, 3, 1), (3, 3, -5), (5, 4, 4), (2, 5, -5), (5, 0, -1)):
            for k in (1, 2):
                for w2_first in (True, False):
                    h = sect(0, ["do", ["eventwait", 0], ["end"]])
                    w1 = sect(1, _sleeps(k, sect(0, _sleeps(1, ["end"]))))
                    w2 = sect(0, _sleeps(1, ["end"]))
                    x = sect(1, _sleeps(1, ["end"]))
                    acts = [["spawn", ["prio", [7, 1]], h], ["step"],
                            ["spawn", ["prio", [pw1, 1]], w1], ["step"],
                            ["spawn", ["prio", [px, 1]], x], ["step"]]
                    if w2_first:
                        acts += [["spawn", ["prio", [pw2, 1]], w2], ["step"]]
                    acts += [["step"]] * (k + 1)
                    if not w2_first:
                        acts += [["spawn", ["prio", [pw2, 1]], w2], ["step"]]
                    acts += [["step"]] * 2 + [["do", ["eventset", 0]]] + [["step"]] * 24
                    yield {"loop": loop, "locks": ["prio", "prio"], "conds": [], "events": 1, "acts": acts}


def gen_leaving(rng):
    """the C11 generator with cancellations of arbitrary tasks sprinkled in"""
    c = c11.gen_case(rng, loops=("stock", "prio"))
    out, nt = [], 0
    for a in c["acts"]:
        out.append(a)
        if a[0] == "spawn":
            nt += 1
        elif a[0] == "step" and nt and rng.random() < 0.12:
            out.append(["do", ["cancel", rng.randrange(nt)]])
    c["acts"] = out
    return c


def gen(rng, tier):
    yield from c11.chain_cases(tier)
    yield from c11.window_cases(tier)
    yield from leave_cases(tier)
    yield from late_wait_cases(tier)
    for _ in range(350 if tier == "quick" else 2000):
        yield c11.gen_case(rng, loops=("stock", "prio"))
    for _ in range(150 if tier == "quick" else 800):
        yield gen_leaving(rng)


def oracle(case, ob):
    if not ok_obs(case, ob):
        return f"runner failed: {ob!r}"[:200]
    for k in range(1, len(ob)):
        st, before = ob[k], ob[k - 1]
        a = case["acts"][k]
        where = f"after action {k} {a if a[0] != 'spawn' else 'spawn'}"
        for li, lk in enumerate(before[LOCKS]):
            if lk[0] != 0:
                continue
            entries = lk[3][1]
            # live waiters before the action: entry future pending and a task still blocked on it
            live = []
            for (p, seq, fid) in entries:
                if before[FUTS][fid][0][0] != 0:
                    continue
                owner = [t for t, tk in enumerate(before[TASKS]) if tk[1] == fid and not tk[0]]
                if owner:
                    live.append((owner[0], seq, fid))
            woken = [(t, seq, fid) for (t, seq, fid) in live
                     if fid < len(st[FUTS]) and st[FUTS][fid][0][0] == 1]
            if not woken:
                continue
            if len(woken) > 1:
                return f"{where}: lock {li}: two waiters woken by one action: {woken}"
            t, seq, fid = woken[0]

            prio_b, waiters_b = c11.graph(before)

            def ep(state, task):
                # recomputed from the observed wait-for graph (own priorities, held locks, queued waiters),
                # NOT read from the implementation's effective_priority()
                tk = state[TASKS][task]
                if not tk[5]:
                    return Fraction(0)
                return c11.eprio_ref(state, task, prio_b, waiters_b)
            # effective priorities at the moment of the hand-over: the waiters' own priorities do not
            # change by the releasing action itself, so the state before the action is the reference
            mine = (ep(before, t), seq)
            for (t2, seq2, fid2) in live:
                if fid2 == fid:
                    continue
                other = (ep(before, t2), seq2)
                if other < mine:
                    return (f"{where}: lock {li} was handed to task {t} (effective priority {mine[0]}, arrival {seq}) "
                            f"although task {t2} (effective priority {other[0]}, arrival {seq2}) was waiting")
    return None


F17 = "F17-propagate-stops-at-runnable-waiter"


def signature(stream, case, msg):
    """Known finding F17: PriorityTask.propagate_priority() stops at a waiter that is runnable (cancelled or
    woken, but still queued because it has not run its `finally` yet), so the holders above it keep a stale
    key.  A hand-over failure carries this signature iff, in the state just before the hand-over, the overtaken
    task holds - directly or through the waiters of the locks it holds - a PriorityLock with a queued entry
    whose future is no longer pending (the not-yet-departed waiter).  Any other hand-over failure has no
    signature and is reported as a violation."""
    import re
    from .. import sched_lang as SL
    m = re.match(r"after action (\d+) .*although task (\d+) ", msg or "")
    if not m:
        return None
    k, t2 = int(m.group(1)), int(m.group(2))
    try:
        ob = SL.impl_sched(case)
        before = ob[k - 1]
    except Exception:
        return None
    seen, todo = set(), [t2]
    while todo:
        t = todo.pop()
        if t in seen or t >= len(before[TASKS]):
            continue
        seen.add(t)
        for l in before[TASKS][t][3]:
            lk = before[LOCKS][l]
            if lk[0] != 0:
                continue
            for (p, seq, fid) in lk[3][1]:
                owners = [w for w, tk in enumerate(before[TASKS]) if tk[1] == fid and not tk[0]]
                if before[FUTS][fid][0][0] != 0:
                    return F17            # a departed-in-spirit waiter is still queued below the overtaken task
                todo.extend(owners)
    return None


PROP = Prop(
    pid="C12",
    props_v="theories/Props/C12.v",
    theory_files=["theories/Sched/Model.v", "theories/Sched/Corr.v", "theories/Sched/InheritProofs.v"],
    streams=[make_stream("handover", gen, oracle)],
    signature=signature,
    rule="the C11 generator (lock chains of length 1..4 with all priority pairs of late waiters; random programs with "
         "2..6 contenders, ties, ints/floats/Priority enum members, plain tasks, urgent late arrivals that raise a "
         "queued waiter's priority by inheritance; a task that already inherits priority when it begins to wait (all orders); waiters that leave by cancellation / task_throw while a queued "
         "lock-holder inherits from them, at every depth of a lock chain) on the stock and the priority loop; every hand-over (a waiter's "
         "future going from pending to result) is judged; non-trivial: >=4 actions of >=3 kinds",
    assumptions=["live waiter = entry future pending and its task still blocked on it; effective priorities are read "
                 "in the state just before the action that wakes a waiter"],
)
