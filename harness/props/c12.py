"""C12 - PriorityLock hands over in effective-priority order."""
from __future__ import annotations

from fractions import Fraction

from ..framework import Prop
from ..sched_props import (READY, FUTS, TASKS, LOCKS, make_stream, ok_obs)
from . import c11


def gen(rng, tier):
    yield from c11.chain_cases(tier)
    yield from c11.window_cases(tier)
    for _ in range(450 if tier == "quick" else 2500):
        yield c11.gen_case(rng, loops=("stock", "prio"))


def oracle(case, ob):
    if not ok_obs(case, ob):
        return f"runner failed: {ob!r}"[:200]
    for k in range(1, len(ob)):
        st, before = ob[k], ob[k - 1]
        a = case["acts"][k]
        where = f"after action {k} {a if a[0] != 'spawn' else 'spawn'}"
        for li, lk in enumerate(before[LOCKS]):
            if lk[0] != 0:
                continue
            entries = lk[3][1]
            # live waiters before the action: entry future pending and a task still blocked on it
            live = []
            for (p, seq, fid) in entries:
                if before[FUTS][fid][0][0] != 0:
                    continue
                owner = [t for t, tk in enumerate(before[TASKS]) if tk[1] == fid and not tk[0]]
                if owner:
                    live.append((owner[0], seq, fid))
            woken = [(t, seq, fid) for (t, seq, fid) in live
                     if fid < len(st[FUTS]) and st[FUTS][fid][0][0] == 1]
            if not woken:
                continue
            if len(woken) > 1:
                return f"{where}: lock {li}: two waiters woken by one action: {woken}"
            t, seq, fid = woken[0]

            def ep(state, task):
                tk = state[TASKS][task]
                return Fraction(*tk[6][0]) if tk[6] else Fraction(0)
            # effective priorities at the moment of the hand-over: the waiters' own priorities do not
            # change by the releasing action itself, so the state before the action is the reference
            mine = (ep(before, t), seq)
            for (t2, seq2, fid2) in live:
                if fid2 == fid:
                    continue
                other = (ep(before, t2), seq2)
                if other < mine:
                    return (f"{where}: lock {li} was handed to task {t} (effective priority {mine[0]}, arrival {seq}) "
                            f"although task {t2} (effective priority {other[0]}, arrival {seq2}) was waiting")
    return None


PROP = Prop(
    pid="C12",
    props_v="theories/Props/C12.v",
    theory_files=["theories/Sched/Model.v", "theories/Sched/Corr.v", "theories/Sched/InheritProofs.v"],
    streams=[make_stream("handover", gen, oracle)],
    rule="the C11 generator (lock chains of length 1..4 with all priority pairs of late waiters; random programs with "
         "2..6 contenders, ties, ints/floats/Priority enum members, plain tasks, urgent late arrivals that raise a "
         "queued waiter's priority by inheritance) on the stock and the priority loop; every hand-over (a waiter's "
         "future going from pending to result) is judged; non-trivial: >=4 actions of >=3 kinds",
    assumptions=["within the property's quantifier no waiter's effective priority becomes less urgent while it is queued "
                 "(no cancellation/interrupts here; those are C13)"],
)
