"""C09 - runnable, blocked and current tasks partition all tasks."""
from __future__ import annotations

from .. import sched_gen as G
from ..framework import Prop
from ..sched_props import (READY, FUTS, TASKS, LOG, make_stream, ok_obs, enum_env, ready_handles)

CFG = {
    "loops": ["stock", "sched", "prio"],
    "locks": ["plain"], "conds": [], "events": 2, "nfuts": 2,
    "kinds": [["plain"], ["py"], ["prio", [0, 1]], ["py"]],
    "ops": {"log": 1, "sleep0": 3, "eventwait": 2, "eventset": 1, "awaitfut": 2, "awaittask": 1, "cancel": 1,
            "throw": 1, "interrupt": 1, "query": 4, "try": 1.5, "section": 1, "spawn": 0.7, "setresult": 0.5},
    "spawn_kinds": [["plain"], ["py"]],
    "env": {"step": 10, "cancel": 2, "throw": 2, "eventset": 1.5, "setresult": 1, "setexc": 0.7, "futcancel": 0.7,
            "spawn": 1, "query": 5, "callsoonquery": 1.5},
    "nacts": (8, 36), "nworkers": (2, 4), "depth": 2, "drain": 10,
}


def gen_random(rng):
    c = G.gen_case(rng, CFG)
    # interleave queries from outside (explicit loop argument, loop stopped) and from callbacks
    acts = []
    nspawned = 0
    for a in c["acts"]:
        acts.append(a)
        if a[0] == "spawn":
            nspawned += 1
        r = rng.random()
        if r < 0.35:
            acts.append(["do", ["query"]])
        elif r < 0.45:
            acts.append(["do", ["callsoonquery"]])
        elif r < 0.52 and nspawned >= 2:
            acts.append(["do", ["callsooncancel", rng.randrange(2)]])
    c["acts"] = acts
    return c


def exhaustive_cases(tier):
    depth = 2 if tier == "quick" else 3
    w_ev = ["try", ["do", ["log", 1], ["do", ["eventwait", 0], ["do", ["log", 2], ["end"]]]], "base",
            ["logexc", ["do", ["sleep0"], ["end"]]], ["end"], ["end"]]
    w_fut = ["do", ["awaitfut", 0], ["do", ["query"], ["end"]]]
    w_sl = ["do", ["sleep0"], ["do", ["query"], ["do", ["sleep0"], ["end"]]]]
    alphabet = [["step"], ["do", ["cancel", 0]], ["do", ["cancel", 1]], ["do", ["throw", 0, ["interrupt", 1]]],
                ["do", ["throw", 2, ["user", 1]]], ["do", ["eventset", 0]], ["do", ["setresult", 0, 1]],
                ["do", ["futcancel", 0]], ["do", ["callsoonquery"]], ["do", ["callsooncancel", 0]],
                ["do", ["callsooncancel", 1]]]
    for loop in ("stock", "sched", "prio"):
        base = [["do", ["newfut"]], ["spawn", ["py"], w_ev], ["spawn", ["plain"], w_fut], ["spawn", ["py"], w_sl],
                ["step"], ["step"], ["step"]]
        for env in enum_env(alphabet, depth):
            acts = list(base)
            for a in env:
                acts.append(list(a)); acts.append(["do", ["query"]])
            acts += [["step"], ["do", ["query"]]] * 5
            yield {"loop": loop, "locks": [], "conds": [], "events": 1, "acts": acts}


def gen(rng, tier):
    yield from exhaustive_cases(tier)
    for _ in range(450 if tier == "quick" else 2500):
        yield gen_random(rng)


def oracle(case, ob):
    if not ok_obs(case, ob):
        return f"runner failed: {ob!r}"[:200]
    prev_log = 0
    for k, st in enumerate(ob):
        a = case["acts"][k]
        where = f"after action {k} {a if a[0] != 'spawn' else 'spawn'}"
        tasks = st[TASKS]
        handles = ready_handles(st)
        live = [t for _, c, t in handles if t >= 0 and not c]
        alive = [t for t, tk in enumerate(tasks) if not tk[0]]
        blocked = [t for t in alive if tasks[t][1] != -1 and st[FUTS][tasks[t][1]][0][0] == 0]
        # ground truth partition (observed from outside: no current task)
        for t in alive:
            n = live.count(t)
            if t in blocked and n != 0:
                return f"{where}: task {t} waits for a pending future and has {n} handle(s) in the ready queue"
            if t not in blocked and n != 1:
                return f"{where}: task {t} is not blocked and has {n} live handles in the ready queue"
        for t in set(live):
            if t not in alive:
                return f"{where}: finished task {t} still has a handle in the ready queue"
        # what the API reported
        newlog = st[LOG][prev_log:]
        prev_log = len(st[LOG])
        for who, code in newlog:
            if code == -3:
                return f"{where}: runnable_tasks(loop)/blocked_tasks(loop) raised when called from outside the stopped loop"
            if code in (-1, -2):
                return f"{where}: runnable_tasks()/blocked_tasks() failed its own assertion (code {code})"
            if code >= 10000 or (0 <= code < 10000 and a[0] == "do" and a[1][0] == "query"):
                if code < 0:
                    continue
                r, b, n = code // 10000, (code // 100) % 100, code % 100
                cur = 1 if who > 0 else 0
                if r + b + cur != n:
                    return f"{where}: all_tasks()={n} but runnable={r} blocked={b} current={cur}"
                if a[0] == "do" and a[1][0] == "query" and who == 0:
                    if (r, b, n) != (len(set(live)), len(blocked), len(alive)):
                        return (f"{where}: API says runnable={r} blocked={b} all={n}; ready queue truth is "
                                f"runnable={len(set(live))} blocked={len(blocked)} all={len(alive)}")
    return None


PROP = Prop(
    pid="C09",
    props_v="theories/Props/C09.v",
    theory_files=["theories/Sched/Model.v", "theories/Sched/Corr.v", "theories/Sched/PartTables.v", "theories/Sched/PartitionProofs.v", "theories/Sched/PartitionSteps.v", "theories/Sched/PartitionRun.v", "theories/Sched/PartitionFinal.v"],
    streams=[make_stream("partition", gen, oracle)],
    rule="bounded-exhaustive environment sequences over {step, cancel, task_throw, set event, resolve/cancel future, "
         "query-from-callback} against three workers (blocked on an event, on a future, sleeping) on three loops with "
         "runnable_tasks()/blocked_tasks()/all_tasks() evaluated from outside after every action, plus random "
         "programs; non-trivial: >=4 actions of >=3 kinds",
    assumptions=["observation from outside happens between handles (no current task); from inside through OQuery / call_soon callbacks",
                 "task_throw/task_interrupt only target Python tasks (the property's quantifier)"],
)
