"""C13 - PriorityLock: mutual exclusion and no lost wake-up under cancel/interrupt."""
from __future__ import annotations

import random

from .. import sched_gen as G
from ..framework import Prop
from ..sched_props import (READY, FUTS, TASKS, LOCKS, make_stream, ok_obs, enum_env, fut_state)

CFG = {
    "loops": ["stock", "prio", "sched"],
    "locks": ["prio", "prio"], "conds": [], "events": 1, "nfuts": 0,
    "kinds": [["prio", [0, 1]], ["py"], ["prio", [0, 1]], ["plain"]],
    "ops": {"log": 2, "sleep0": 3, "eventwait": 1, "section": 6, "interrupt": 0.7, "cancel": 0.5, "try": 1.5},
    "catches": ["cancel", "base", "never"],
    "env": {"step": 10, "cancel": 2, "throw": 2, "eventset": 1, "spawn": 1.5},
    "nacts": (6, 30), "nworkers": (2, 5), "depth": 3, "drain": 40, "stmts": (1, 3),
}


def sect(l, *body):
    s = ["end"]
    inner = ["end"]
    for op in reversed(body):
        inner = ["do", list(op), inner]
    return ["do", ["acquire", l], ["try", inner, "never", ["end"], ["do", ["release", l], ["end"]], ["end"]]]


def exhaustive_cases(tier):
    """three contenders of different urgency on one lock; every environment sequence of
    bounded length over {step, cancel i, throw i, arrival of a more urgent contender}"""
    depth = 3 if tier == "quick" else 4
    w = lambda: sect(0, ["log", 1], ["sleep0"], ["log", 2])
    urgent = sect(0, ["log", 9])
    alphabet = [["step"], ["do", ["cancel", 1]], ["do", ["cancel", 2]], ["do", ["throw", 1, ["interrupt", 1]]],
                ["do", ["throw", 1, ["user", 1]]], ["spawn", ["prio", [-5, 1]], urgent]]
    for loop in ("stock", "prio"):
        base = [["spawn", ["prio", [5, 1]], w()], ["spawn", ["py"], w()], ["spawn", ["prio", [3, 1]], w()],
                ["step"], ["step"], ["step"], ["step"]]
        for env in enum_env(alphabet, depth):
            if tier == "quick" and len(env) == depth and env[0][0] == "step" and env[1][0] == "step":
                continue
            yield {"loop": loop, "locks": ["prio"], "conds": [], "events": 0,
                   "acts": base + [list(a) for a in env] + [["step"]] * 14}


def gen(rng, tier):
    yield from exhaustive_cases(tier)
    for _ in range(350 if tier == "quick" else 2500):
        yield G.gen_case(rng, CFG)


def oracle(case, ob):
    if not ok_obs(case, ob):
        return f"runner failed: {ob!r}"[:200]
    for k, st in enumerate(ob):
        where = f"after action {k} {case['acts'][k] if case['acts'][k][0] != 'spawn' else 'spawn'}"
        tasks = st[TASKS]
        for li, lk in enumerate(st[LOCKS]):
            if lk[0] != 0:
                continue
            _, locked, owner, (seqn, entries) = lk
            if bool(locked) != (owner != -1):
                return f"{where}: lock {li}: locked()={locked} but owner={owner}"
            holders = [t for t, tk in enumerate(tasks) if li in tk[3]]
            if len(holders) > 1:
                return f"{where}: lock {li} is held by {holders}"
            if holders and holders[0] != owner:
                return f"{where}: lock {li}: task {holders[0]} records it as held, owner is {owner}"
            if owner != -1 and tasks[owner][5] and li not in tasks[owner][3]:
                return f"{where}: lock {li}: owner {owner} does not record it as held"
            fids = [e[2] for e in entries]
            if len(set(fids)) != len(fids):
                return f"{where}: lock {li}: duplicate waiter entries"
            woken = [f for f in fids if fut_state(st, f) == 1]
            if len(woken) > 1 or (woken and locked):
                return f"{where}: lock {li}: {len(woken)} woken waiters queued, locked={locked}"
            if not locked and fids:
                blocked = [f for f in fids if fut_state(st, f) == 0 and any(tk[1] == f and not tk[0] for tk in tasks)]
                if len(blocked) == len(fids):
                    return f"{where}: lock {li} is free, {len(fids)} tasks wait and no wake-up is in flight"
        for t, tk in enumerate(tasks):
            f = st[FUTS]
        # an AssertionError in any task means _take_lock/release met a second owner
        for fi, f in enumerate(st[FUTS]):
            if f[0][0] == 2 and f[0][1][0] == 7:
                return f"{where}: a task died of AssertionError (lock owner assertion)"
    last = ob[-1]
    if all(tk[0] for tk in last[TASKS]):
        for li, lk in enumerate(last[LOCKS]):
            if lk[0] == 0 and (lk[1] or lk[2] != -1 or lk[3][1]):
                return f"at quiescence lock {li} is not clean: {lk}"
        for t, tk in enumerate(last[TASKS]):
            if tk[3] or tk[4] != -1:
                return f"at quiescence task {t} still records held/awaited locks: {tk}"
    return None


PROP = Prop(
    pid="C13",
    props_v="theories/Props/C13.v",
    theory_files=["theories/Sched/Model.v", "theories/Sched/Corr.v", "theories/Sched/Tables.v", "theories/Sched/QFacts.v", "theories/Sched/LockInv.v", "theories/Sched/Footprint.v", "theories/Sched/LockOps.v", "theories/Sched/LockLib.v", "theories/Sched/LockProofs.v", "theories/Sched/LockStatic.v", "theories/Sched/LockThms.v"],
    streams=[make_stream("locks", gen, oracle)],
    rule="bounded-exhaustive environment sequences over {step, cancel i, task_throw i e, arrival of a more urgent "
         "contender} against three contenders on one PriorityLock (stock and priority loop), plus random worker "
         "scripts (nested lock sections in a fixed lock order, sleeps, event waits, handlers, mutual interrupts) x "
         "random environment sequences on three loops; non-trivial: >=4 actions of >=3 kinds; distinct by input JSON",
    assumptions=["wait-for graphs are acyclic (locks taken in a fixed order): a cyclic graph makes "
                 "effective_priority() recurse without bound in the implementation (outside the property's quantifier)",
                 "liveness is checked as: a free lock with waiters always has a wake-up in flight, and every run is "
                 "drained to quiescence; fairness of the priority loop is not claimed"],
)
