"""C10 - Priority loop: most urgent first, FIFO among equals, positions override."""
from __future__ import annotations

import copy
import random
from fractions import Fraction

from .. import sched_gen as G
from .. import sched_lang as SL
from ..framework import Prop
from ..sched_props import (READY, FUTS, TASKS, LOCKS, LOG, make_stream, ok_obs, ready_handles)

CFG = {
    "loops": ["prio"],
    "locks": ["prio"], "conds": [], "events": 1, "nfuts": 0,
    "kinds": [["prio", [0, 1]], ["prio", [0, 1]], ["prio", [0, 1]], ["plain"], ["py"]],
    "ops": {"log": 2, "sleep0": 4, "eventwait": 0.7, "section": 2, "sleepinsert": 1.5, "switch": 1.5, "callsoon": 1,
            "callpos": 1.5, "setprio": 1, "spawn": 1.5, "try": 0.5},
    "spawn_kinds": [["plain"], ["descend"], ["start"], ["prio", [-1, 1]], ["prio", [3, 1]]],
    "catches": ["base", "never"],
    "env": {"step": 12, "eventset": 1, "spawn": 1, "callsoon": 0.7},
    "nacts": (10, 45), "nworkers": (2, 5), "depth": 2, "drain": 25,
}


def with_kinds(case, rng):
    """give the priorities as ints, floats or members of the Priority enum"""
    for a in case["acts"]:
        if a[0] == "spawn" and a[1][0] == "prio":
            p = a[1][1]
            r = rng.random()
            if r < 0.3 and p[1] == 1:
                a[1] = ["prio", p, "int"]
    return case


def gen_prio(rng):
    cfg = dict(CFG)
    c = G.gen_case(rng, cfg)
    if rng.random() < 0.3:
        # priorities from the documented enum
        for a in c["acts"]:
            if a[0] == "spawn" and a[1][0] == "prio":
                a[1] = ["prio", list(rng.choice([[10, 1], [0, 1], [-10, 1]])), "enum"]
    return with_kinds(c, rng)


def gen_equal(rng, long=False):
    cfg = dict(CFG)
    cfg["random_prio"] = False
    cfg["ops"] = dict(CFG["ops"], setprio=0)
    cfg["spawn_kinds"] = [["plain"], ["descend"], ["start"], ["prio", [0, 1]]]
    if long:
        cfg["nacts"] = (120, 260)      # long enough for queue maintenance to trigger
        cfg["nworkers"] = (4, 5)
        cfg["ops"] = dict(cfg["ops"], sleep0=10, spawn=2.5)
    c = G.gen_case(rng, cfg)
    c["boost"] = "default"
    return c


CROWD = dict(CFG, nworkers=(7, 9), depth=1, stmts=(2, 5), nacts=(15, 40),
             kinds=[["prio", [0, 1]]],
             ops={"sleep0": 3, "switch": 3, "sleepinsert": 1, "callpos": 1, "log": 1},
             env={"step": 12, "callsoon": 0.5})


def gen(rng, tier):
    for _ in range(300 if tier == "quick" else 2500):
        yield gen_prio(rng)
    # crowded ready queues: removals from inner and leaf slots of the heap by positional scheduling
    for _ in range(100 if tier == "quick" else 600):
        yield with_kinds(G.gen_case(rng, CROWD), rng)


def gen_eq(rng, tier):
    for i in range(200 if tier == "quick" else 1200):
        yield gen_equal(rng, long=(i % 10 == 0))


def oracle(case, ob):
    if not ok_obs(case, ob):
        return f"runner failed: {ob!r}"[:200]
    cls0 = {}                  # hid -> first seen as positional
    for k, st in enumerate(ob):
        a = case["acts"][k]
        where = f"after action {k} {a if a[0] != 'spawn' else 'spawn'}"
        if st[READY][0] != 1:
            continue
        arr = st[READY][2][4]
        before = ob[k - 1] if k else None
        old = {e[5]: e for e in before[READY][2][4]} if before is not None else {}
        for e in arr:
            cls, base, boost, ins_at, seq, hid = e
            if hid in old and old[hid][0] == 0 and cls != 0:
                return (f"{where}: handle {hid} had been placed positionally and is now a regular entry "
                        f"(priority {Fraction(*base)}): its position is lost")
            if cls == 1 and hid not in old:
                owner = [h[2] for h in st[READY][1] if h[0] == hid]
                t = owner[0] if owner else -1
                if t >= 0 and st[TASKS][t][5]:
                    ep = Fraction(*st[TASKS][t][6][0])
                    if Fraction(*base) != ep:
                        return (f"{where}: task {t} became ready with key {Fraction(*base)} but its effective "
                                f"priority is {ep}")
                elif t == -1 or not st[TASKS][t][5]:
                    if Fraction(*base) != 0:
                        return f"{where}: a non-priority callback was queued with key {Fraction(*base)}, expected 0"
        # the entry the loop will pop next is the heap's root: it must be the most urgent one
        if arr:
            root = (arr[0][0], Fraction(*arr[0][1]) + Fraction(*arr[0][2]), arr[0][4])
            best = min((e[0], Fraction(*e[1]) + Fraction(*e[2]), e[4]) for e in arr)
            if root != best:
                return (f"{where}: the priority loop would next run handle {arr[0][5]} (class/priority/arrival {root}) "
                        f"although an entry with {best} is queued")
        # what runs next: positional entries first (in their order), then (priority, arrival)
        order = [h[0] for h in st[READY][1]]
        keys = {e[5]: (e[0], Fraction(*e[1]) + Fraction(*e[2]), e[4]) for e in arr}
        if order != sorted(order, key=lambda h: keys[h]):
            return f"{where}: run order {order} is not by (class, priority, arrival)"
    return None


def oracle_equal(case, ob):
    """with all priorities equal the priority loop schedules exactly like the plain scheduling loop"""
    m = oracle(case, ob)
    if m:
        return m
    ref = copy.deepcopy(case)
    ref["loop"] = "sched"
    ref.pop("boost", None)
    ob2 = SL.impl_sched(ref)
    if not ok_obs(ref, ob2):
        return None
    for k, (a, b) in enumerate(zip(ob, ob2)):
        if a[LOG] != b[LOG]:
            return (f"after action {k}: with all priorities equal the priority loop's log {a[LOG][-6:]} differs from the "
                    f"scheduling loop's {b[LOG][-6:]}")
        if [t[0] for t in a[TASKS]] != [t[0] for t in b[TASKS]]:
            return f"after action {k}: different tasks have finished on the priority loop and on the scheduling loop"
        if [h[0] for h in a[READY][1]] != [h[0] for h in b[READY][1]]:
            return (f"after action {k}: with all priorities equal the priority loop's run order {[h[0] for h in a[READY][1]]} "
                    f"differs from the scheduling loop's {[h[0] for h in b[READY][1]]}")
    return None


PROP = Prop(
    pid="C10",
    props_v="theories/Props/C10.v",
    theory_files=["theories/Sched/Model.v", "theories/Sched/Corr.v", "theories/Queue/PosPQ.v", "theories/Queue/PosProofs.v",
                  "theories/Sched/PrioLoopProofs.v"],
    streams=[make_stream("prio", gen, oracle), make_stream("equal", gen_eq, oracle_equal)],
    rule="random multi-task programs over {sleep(0), sleep_insert, task_switch, call_soon, call_pos, create_task, "
         "create_task_descend/start, PriorityLock sections, priority_value changes} with per-task priorities from a "
         "small set with ties given as ints, floats or Priority enum members, plain tasks and plain callbacks mixed "
         "in (stream prio, boost factor 0); the same with all priorities equal and the default boost factor, run on "
         "the priority loop and on the scheduling loop, incl. histories of >120 actions so that queue maintenance "
         "triggers (stream equal); non-trivial: >=4 actions of >=3 kinds",
    assumptions=["stream prio uses boost factor 0 for the exact-order clause; stream equal uses the default factor 1.2 "
                 "(no entry satisfies the boost condition when all priorities are equal)"],
)
