"""C18 - asynkit event loops keep asyncio's thread-safety contract (partial; see DESIGN).

Deterministic forced interleavings on the real PosPriorityQueue: the loop thread performs one
queue operation; during its k-th PriEntry.__lt__ evaluation (the only points inside heapq's C code
where CPython can switch threads) a REAL second thread performs a complete append, then the
operation continues."""
from __future__ import annotations

import asyncio
import random
import threading
from fractions import Fraction

from .. import coqlit as L
from ..framework import Prop, Stream
from .c17 import pos_state, fr, is_heap

KNOWN = "F13-foreign-append-inside-heap-operation"


def run_with_strike(q, op, k, foreign):
    """returns (outcome, struck)"""
    import asynkit.tools as tools
    orig = tools.PriEntry.__lt__
    main = threading.get_ident()
    count = [0]
    struck = [False]

    def hooked(self, other):
        if threading.get_ident() == main and not struck[0]:
            if count[0] == k:
                struck[0] = True
                t = threading.Thread(target=foreign)
                t.start()
                t.join()
            count[0] += 1
        return orig(self, other)
    tools.PriEntry.__lt__ = hooked
    try:
        try:
            r = op()
            out = [0] if r is None else [0, r]
        except (RuntimeError, ValueError, IndexError):
            out = [1]
    finally:
        tools.PriEntry.__lt__ = orig
    if not struck[0]:
        foreign()                      # the append happens after the operation, sequentially
    return out, struck[0]


def impl(case):
    import asynkit.experimental.priority as prio
    table = {}
    q = prio.PosPriorityQueue(lambda o: table.get(o, 0.0))
    q.priority_boost_factor = 0.0
    for o, p in case["pre"]:
        table[o] = float(fr(p))
        q.append(o)
    fo, fp = case["foreign"]
    table[fo] = float(fr(fp))
    op = case["op"]
    kind = op[0]
    if kind == "popleft":
        f = q.popleft
    elif kind == "append":
        table[op[1]] = float(fr(op[2]))
        f = lambda: q.append(op[1])
    elif kind == "findremove":
        f = lambda: q.find(lambda h: h == op[1], True)
    elif kind == "resched":
        f = lambda: q.reschedule(lambda h: h == op[1], float(fr(op[2])))
    elif kind == "iter":
        f = lambda: (list(q), None)[1]
    else:
        raise AssertionError(op)
    out, struck = run_with_strike(q, f, case["k"], lambda: q.append(fo))
    case["_struck"] = struck
    return [out, pos_state(q)]


def to_coq(case):
    op = case["op"]
    k = op[0]
    cop = {"popleft": "TPopleft", "iter": "TIter"}.get(k) or (
        f"(TAppend {L.z(op[1])} {L.q(fr(op[2]))})" if k == "append" else
        f"(TFindRemove {L.z(op[1])})" if k == "findremove" else
        f"(TResched {L.z(op[1])} {L.q(fr(op[2]))})")
    pre = L.lst([L.pair(L.z(o), L.q(fr(p))) for o, p in case["pre"]])
    fo, fp = case["foreign"]
    return f"({pre}, {cop}, {L.nat(case['k'])}, ({L.z(fo)}, {L.q(fr(fp))}))"


def oracle(case, ob):
    """exactly once, never corrupt, no exception escapes - whatever the interleaving"""
    if not isinstance(ob, list) or len(ob) != 2:
        return f"runner failed: {ob!r}"[:200]
    out, state = ob
    tag = "[struck] " if case.get("_struck") else "[sequential] "
    if out[0] == 1 and not (case["op"][0] == "popleft" and not case["pre"]):
        return tag + f"an exception escaped from the queue operation {case['op']} (it would escape from the event loop)"
    arr = state[4]
    objs = sorted(e[5] for e in arr)
    want = [o for o, _ in case["pre"]] + [case["foreign"][0]]
    op = case["op"]
    if op[0] == "popleft" and out[0] == 0 and len(out) > 1:
        if out[1] in want:
            want.remove(out[1])
    if op[0] == "append":
        want.append(op[1])
    if op[0] == "findremove" and op[1] in want:
        want.remove(op[1])
    if objs != sorted(want):
        return tag + f"queue contents {objs} differ from what was submitted {sorted(want)}: a callback was lost or duplicated"
    keys = [(e[0], Fraction(*e[1]) + Fraction(*e[2]), e[4]) for e in arr]
    if not is_heap(keys):
        return tag + "the ready queue's heap is corrupt after the operation"
    if len({e[4] for e in arr}) != len(arr):
        return tag + "duplicate sequence numbers in the ready queue (arrival order lost)"
    return None


def gen(rng, tier):
    sizes = range(1, 9) if tier == "quick" else range(1, 17)
    pris = ([0, 1], [1, 1], [-1, 1], [2, 1])
    for n in sizes:
        for variant in range(2 if tier == "quick" else 4):
            pre = [[i + 1, list(rng.choice(pris))] for i in range(n)]
            ops = [["popleft"], ["append", 100, list(rng.choice(pris))], ["findremove", rng.randint(1, n)],
                   ["resched", rng.randint(1, n), list(rng.choice(pris))], ["iter"]]
            for op in ops:
                kmax = 1 if op[0] == "iter" else min(2 * n + 2, 14)
                for k in range(kmax):
                    for fp in ([0, 1], [-2, 1], [3, 1]):
                        if op[0] == "iter" and n < 2:
                            continue
                        yield {"pre": pre, "op": op, "k": k, "foreign": [200, fp]}


def nontrivial(case, ob):
    return len(case["pre"]) >= 2


def signature(stream, case, msg):
    return None


def oracle_class(case, ob):
    """the bare PosPriorityQueue class is not thread-safe by itself (that is what Queue/Threads.v models and what
    C18_strike_always_raises characterises); the property is about the event loops, judged by the `loop` stream.
    This stream only validates the model, so that the refutation of the pre-fix loop stays tied to the code."""
    if not isinstance(ob, list) or len(ob) != 2:
        return f"runner failed: {ob!r}"[:200]
    if not case.get("_struck"):
        return oracle(case, ob)          # a sequential history must be flawless
    return None


def impl_loop(case):
    """the same strikes at the level of the real priority loop: the foreign thread calls
    loop.call_soon_threadsafe() while the loop thread is inside a queue operation; afterwards the loop
    does what the start of its next iteration does"""
    from asynkit.experimental.priority import PrioritySelectorEventLoop
    loop = PrioritySelectorEventLoop()
    try:
        q = loop.ready_queue
        q.priority_boost_factor = 0.0
        ids = {}
        table = {}
        q._get_priority = lambda h: table.get(ids.get(id(h)), 0.0)

        def reg(h, o, p):
            ids[id(h)] = o
            table[o] = float(fr(p))
            return h
        keep = []
        for o, p in case["pre"]:
            h = asyncio.Handle(lambda: None, (), loop)
            keep.append(reg(h, o, p))
            q.append(h)
        fo, fp = case["foreign"]
        op = case["op"]
        kind = op[0]
        byobj = lambda o: (lambda h: ids.get(id(h)) == o)
        if kind == "popleft":
            f = lambda: ids[id(q.popleft())]
        elif kind == "append":
            h2 = reg(asyncio.Handle(lambda: None, (), loop), op[1], op[2]); keep.append(h2)
            f = lambda: q.append(h2)
        elif kind == "findremove":
            f = lambda: (lambda r: None if r is None else ids[id(r)])(q.find(byobj(op[1]), True))
        elif kind == "resched":
            f = lambda: (lambda r: None if r is None else ids[id(r)])(q.reschedule(byobj(op[1]), float(fr(op[2]))))
        else:
            f = lambda: (list(q), None)[1]

        def foreign():
            # what another thread does: submit a callback; its priority is looked up when it is queued
            orig_handle = asyncio.Handle

            h = loop.call_soon_threadsafe(lambda: None)
            reg(h, fo, fp)
            keep.append(h)
        # the priority of the foreign handle must be known before it is queued
        pending = {}
        orig_gp = q._get_priority
        q._get_priority = lambda h: table.get(ids.get(id(h)), float(fr(fp)))
        out, struck = run_with_strike(q, f, case["k"], foreign)
        if hasattr(loop, "_drain_threadsafe_inbox"):
            loop._drain_threadsafe_inbox()
        case["_struck"] = struck
        st = pos_state(q)
        st[4] = [e[:5] + [ids.get(id(e[5]), -1)] for e in st[4]]
        return [out, st]
    finally:
        loop._ready.clear()
        loop.close()


def to_coq_loop(case):
    c = dict(case)
    c["k"] = 1000          # the repaired loop never lets the append strike: the model is the sequential composition
    return to_coq(c)


def gen_loop(rng, tier):
    for c in gen(rng, tier):
        if c["op"][0] != "iter":
            yield c


from .. import c18_wake as W

PROP = Prop(
    pid="C18",
    props_v="theories/Props/C18.v",
    theory_files=["theories/Queue/Threads.v", "theories/Queue/ThreadsCorr.v", "theories/Queue/ThreadsProofs.v",
                  "theories/Queue/Wakeup.v", "theories/Queue/WakeupProofs.v",
                  "theories/Queue/WakeupFine.v", "theories/Queue/WakeupFineProofs.v"],
    streams=[Stream(name="loop", imports=["Queue.PQ", "Queue.PosPQ", "Queue.Threads", "Queue.ThreadsCorr"],
                    run="threads_run", input_type="list (Z * Q) * top * nat * (Z * Q)",
                    gen=gen_loop, impl=impl_loop, to_coq=to_coq_loop, oracle=oracle, nontrivial=nontrivial,
                    corr_name="priority loop: call_soon_threadsafe during a queue operation = sequential history"),
             Stream(name="wake", imports=["Queue.Wakeup"], run="wake_run", input_type="winput",
                    gen=W.gen, impl=W.impl, to_coq=W.to_coq, oracle=W.oracle, nontrivial=W.nontrivial,
                    shrink=W.shrink,
                    corr_name="call_soon_threadsafe wake-up protocol, line by line against the loop thread "
                              "(Queue/Wakeup.v)"),
             Stream(name="wakefine", imports=["Queue.Wakeup", "Queue.WakeupFine"], run="wake_run_f",
                    input_type="winput",
                    gen=W.gen_fine, impl=W.impl, to_coq=W.to_coq, oracle=W.oracle, nontrivial=W.nontrivial,
                    shrink=W.shrink,
                    corr_name="wake-up protocol with the loop thread single-stepped through the source lines of "
                              "_drain_threadsafe_inbox as well (Queue/WakeupFine.v)"),
             Stream(name="strike", imports=["Queue.PQ", "Queue.PosPQ", "Queue.Threads", "Queue.ThreadsCorr"],
                    run="threads_run", input_type="list (Z * Q) * top * nat * (Z * Q)",
                    gen=gen, impl=impl, to_coq=to_coq, oracle=oracle_class, nontrivial=nontrivial,
                    corr_name="PosPriorityQueue class under a foreign append (Queue/Threads.v)")],
    rule="every loop-thread operation in {popleft, append, find+remove, reschedule, iteration} on queues of 1..8 "
         "(thorough: 1..16) entries x every index k of a PriEntry.__lt__ evaluation inside the operation (and beyond: "
         "then the append happens after it) x a foreign append of priority in {0, -2, 3} performed by a real second "
         "thread during that evaluation; non-trivial: >= 2 entries.  Stream `wake`: 1..3 real foreign threads "
         "single-stepped line by line through call_soon_threadsafe against the loop thread single-stepped through "
         "{drain, select+run} (enumerated: one complete submission at every loop phase x the second submission "
         "stopped after every line x 0..5 loop steps; both submissions interleaved line-wise; random schedules).  Stream `wakefine`: the same with the "
         "loop thread also single-stepped through every source line of _drain_threadsafe_inbox (1..3 complete "
         "submissions in the inbox x a late submission, whole or line by line, after every number of drain lines; "
         "random schedules)",
    signature=signature,
    assumptions=["thread switches inside heapq's C functions can only happen inside the Python-level PriEntry.__lt__ "
                 "(CPython holds the GIL otherwise); deque.append/popleft are atomic under the GIL (scheduling loops)",
                 "streams loop/strike: the foreign append is itself executed without further interleaving (single strike); "
                 "stream wake: thread switches inside call_soon_threadsafe are taken at source-line granularity "
                 "(calls made from it, e.g. Handle(), deque.append, _write_to_self, run without a switch)"],
)
