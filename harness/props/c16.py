"""C16 - task_timeout fires iff the block outlives its deadline, never after exit."""
from __future__ import annotations

import random
from fractions import Fraction

from ..framework import Prop
from ..sched_props import (READY, FUTS, TASKS, LOG, NOW, ERRS, TIMERS, make_stream, ok_obs)

DEADLINES = (None, [-1, 1], [0, 1], [1, 1], [2, 1], [3, 1], [4, 1])
ENTER, BODYEND, OK, TO = 10000, 20000, 30000, 40000


def app(s, rest):
    k = s[0]
    if k == "end":
        return rest
    if k == "do":
        return ["do", s[1], app(s[2], rest)]
    if k == "try":
        return s[:5] + [app(s[5], rest)]
    if k == "timeout":
        return s[:3] + [app(s[3], rest)]
    if k == "logexc":
        return ["logexc", app(s[1], rest)]
    return s


def body_ops(rng, others):
    ops = []
    for _ in range(rng.randint(0, 3)):
        r = rng.random()
        if r < 0.35:
            ops.append(["sleep0"])
        elif r < 0.8:
            ops.append(["sleep", list(rng.choice([[1, 1], [2, 1], [3, 1], [1, 2]]))])
        elif others:
            ops.append(["awaittask", rng.choice(others)])
        else:
            ops.append(["awaitfut", 0])
    return ops


def block(rng, bid, depth, others, table):
    """try: async with task_timeout(d): ENTER; ops; [inner block]; ops; BODYEND   ; OK  except TimeoutError: TO"""
    my = bid[0]
    bid[0] += 1
    d = rng.choice(DEADLINES)
    table[str(my)] = d
    inner = ["end"]
    parts = [["do", op, ["end"]] for op in body_ops(rng, others)]
    if depth > 1 and rng.random() < 0.7:
        parts.append(block(rng, bid, depth - 1, others, table))
        parts += [["do", op, ["end"]] for op in body_ops(rng, others)]
    body = ["do", ["log", ENTER + my], ["end"]]
    for p in parts:
        body = app(body, p)
    body = app(body, ["do", ["log", BODYEND + my], ["end"]])
    return ["try", ["timeout", d, body, ["do", ["log", OK + my], ["end"]]], "timeouterr",
            ["do", ["log", TO + my], ["end"]], ["end"], ["end"]]


def gen_case(rng):
    loop = rng.choice(["stock", "sched", "prio"])
    table = {}
    bid = [0]
    acts = [["do", ["newfut"]]]
    # a helper task that the bodies may await (it must never be cancelled by a timeout)
    acts.append(["spawn", ["plain"], ["do", ["sleep", list(rng.choice([[2, 1], [3, 1], [5, 1]]))], ["ret", 7]]])
    nw = rng.randint(1, 2)
    for i in range(nw):
        script = ["try", app(block(rng, bid, rng.randint(1, 3), [0], table), ["do", ["log", 90000 + i], ["end"]]),
                  "base", ["logexc", ["end"]], ["end"], ["end"]]
        acts.append(["spawn", ["py"], script])
    for _ in range(rng.randint(4, 11)):
        acts.append(["begin"])
        acts += [["step"]] * 22
        acts.append(["advance", list(rng.choice([[1, 1], [1, 1], [1, 2], [2, 1]]))])
    acts.append(["do", ["setresult", 0, 1]])
    for _ in range(7):
        acts.append(["begin"])
        acts += [["step"]] * 8
        acts.append(["advance", [4, 1]])
    return {"loop": loop, "locks": [], "conds": [], "events": 0, "acts": acts, "deadlines": table}


def gen(rng, tier):
    for _ in range(320 if tier == "quick" else 2500):
        yield gen_case(rng)


def oracle(case, ob):
    if not ok_obs(case, ob):
        return f"runner failed: {ob!r}"[:200]
    acts = case["acts"]
    dl = case["deadlines"]
    entered, ended, entered_at = {}, {}, {}
    prevlog = 0
    begins = []
    # the timing clauses assume whole loop iterations: the ready queue is empty whenever the clock advances
    drained = all(not ob[k - 1][READY][1] for k in range(1, len(ob)) if acts[k][0] == "advance")
    for k, st in enumerate(ob):
        now = Fraction(*st[NOW])
        a = acts[k]
        where = f"after action {k} {a if a[0] != 'spawn' else 'spawn'} at t={now}"
        if st[ERRS]:
            return f"{where}: the event loop's exception handler was called"
        if a[0] == "begin":
            begins.append((k, now))
        newlog = st[LOG][prevlog:]
        prevlog = len(st[LOG])
        for who, c in newlog:
            if c == 903:
                return f"{where}: a TimeoutInterrupt reached user code outside its block (stray interrupt)"
            if 900 <= c < 1000:
                return f"{where}: an exception (code {c}) escaped all timeout blocks of task {who - 1}"
            kind, b = c // 10000 * 10000, c % 10000
            if kind == ENTER:
                entered[b] = now
                entered_at[b] = k
            if kind in (OK, TO):
                if b in ended:
                    return f"{where}: block {b} ended twice"
                ended[b] = (kind, now)
                d = dl.get(str(b))
                if kind == TO:
                    if d is None:
                        return f"{where}: task_timeout(None) raised TimeoutError (block {b})"
                    deadline = entered[b] + Fraction(*d)
                    if now < deadline:
                        return f"{where}: block {b} entered at {entered[b]} with timeout {Fraction(*d)} timed out early"
                    first = [t for (i, t) in begins if t >= deadline and i > entered_at[b]]
                    if drained and first and now != first[0]:
                        return (f"{where}: block {b} (deadline {deadline}) was interrupted in the loop iteration at "
                                f"t={now}, not in the first iteration at/after its deadline (t={first[0]})")
                if kind == OK and d is not None:
                    deadline = entered[b] + Fraction(*d)
                    if now > deadline:
                        # it outlived its deadline: the loop iteration that passed the deadline should have interrupted it
                        passed = [t for (i, t) in begins if t >= deadline and t < now and i > entered_at[b]]
                        if drained and passed:
                            return (f"{where}: block {b} (deadline {deadline}) completed normally at t={now} although "
                                    f"loop iterations ran at {passed[:2]} after its deadline")
        # awaited objects are never cancelled by a timeout
        if st[FUTS] and st[FUTS][0][0][0] == 3:
            return f"{where}: the shared future awaited inside a block was cancelled"
        if len(st[FUTS]) > 1 and st[FUTS][1][0][0] == 3:
            return f"{where}: the helper task awaited inside a block was cancelled"
    last = ob[-1]
    quiescent = (not last[READY][1]) and not any(not c for (_, _, c) in last[TIMERS])
    for b, t0 in entered.items():
        if b not in ended and quiescent:
            # legal only when an enclosing block timed out first (then the inner one never logs)
            outer_to = [bb for bb, (kind, _) in ended.items() if kind == TO and bb < b]
            if not outer_to:
                return f"block {b} entered at t={t0} never ended although the run was drained"
    for t, tk in enumerate(last[TASKS]):
        f = last[FUTS][1 + t] if 1 + t < len(last[FUTS]) else None
    return None


def _stream():
    st = make_stream("timeouts", gen, oracle)
    st.shrink = None      # the oracle reasons about whole loop iterations; dropping single actions would break them
    return st


PROP = Prop(
    pid="C16",
    props_v="theories/Props/C16.v",
    theory_files=["theories/Sched/Model.v", "theories/Sched/Corr.v", "theories/Sched/TimeoutProofs.v"],
    streams=[_stream()],
    rule="random nestings (depth 1..3) of deadlines from {None, -1, 0, 1, 2, 3, 4 ticks} around bodies made of "
         "sleep(0)/sleep(k)/await another task/await a shared future, in 1..2 Python tasks, under a virtual clock "
         "advanced in steps of 1/2, 1 or 2 ticks with a full loop iteration (timers, then up to 10 handles) per "
         "advance, so that every ordering of deadline vs completion including exact ties occurs; three loops; "
         "non-trivial: >=4 actions of >=3 kinds",
    assumptions=["on an exact tie (block completes in the very iteration in which its deadline passes) either outcome is accepted",
                 "time is virtual: loop.time() is overridden; timers are moved as BaseEventLoop._run_once does"],
)
