"""C05 - await_sync completes non-suspending async code and never strands a coroutine.

Streams
  sync    : await_sync(body()) / syncfunction(body)() for a generated body which may
            await non-suspending coroutines (nested), plain suspending tokens and REAL
            pending asyncio Futures (a loop object exists but never runs during the
            call).  Afterwards an ordinary Task awaits each future on the real loop.
            Observed: result / exception kind + cause kind, the body's log, state of the
            coroutine, ContextVars, (done, #callbacks, handshake flag) of every future,
            and what the later Task sees.
            Oracle: the same body driven by hand with send(None) / throw(SynchronousAbort).
  aiter   : aiter_sync over a class-based async iterator / a native async generator made
            of such bodies; the consumer takes at most `take` values.
            Oracle: the iterator's __anext__() awaitables driven by hand.
  capture : CoroStart(body()) for 1..3 bodies sharing the futures, then the first yield
            of `await cs` / `await cs.athrow(E1)` as a Task receives it (handshake flag;
            finding F1, shared with C01).  Oracle: no flag left set after a capture, flag
            set again when the future reaches the Task, and on a real loop `eager(body())`
            for all bodies gives the same results and logs as plain tasks.

`["tok", y]` with y >= 100 is `await F[y - 100]`, F[0], F[1] pending Futures of a real loop.
"""
from __future__ import annotations

import asyncio
import contextvars
import itertools
import types

from .. import coqlit as L
from .. import coro_lang as C
from ..framework import Prop, Stream

IMPORTS = ["Coro.Tree", "Coro.Native", "Coro.Prog", "Coro.AwaitSync", "Coro.AwaitSyncCorr"]
NFUT = 2
F1 = "F1-future-blocking-flag"

_RT5 = [("coroutine ignored SynchronousAbort", 101), ("await wasn't used with future", 102),
        ("async generator raised StopAsyncIteration", 103), ("yield was used instead of yield from", 105)]


def xcode(e):
    if type(e) is RuntimeError:
        for frag, code in _RT5:
            if frag in str(e):
                return [5, code]
    return C.exc_code(e)


# ----------------------------------------------------------------------------
# environment: a real loop (never run during the synchronous part), two futures
# ----------------------------------------------------------------------------
class Env:
    def __init__(self):
        self.loop = asyncio.new_event_loop()
        self.F = [self.loop.create_future() for _ in range(NFUT)]
        self.yields = 0
        F = self.F

        @types.coroutine
        def tok(y):
            self.yields += 1
            if y >= 100:
                return (yield from F[y - 100])      # Future.__await__
            return (yield y)
        self.tok = tok

    def body(self, p, log=None):
        b = C.Body(p)
        b.ns["tok"] = self.tok
        if log is not None:
            b.log = log
            b.ns["L"] = log
        return b

    def world(self):
        return [[1 if f.done() else 0, len(f._callbacks or ()), 1 if f._asyncio_future_blocking else 0]
                for f in self.F]

    def later(self, g):
        """an ordinary Task awaits F[g]: [callbacks, flag] after its first step, then its outcome
        after F[g].set_result(7)"""
        f, loop = self.F[g], self.loop

        async def waiter():
            return await f
        t = loop.create_task(waiter())
        loop.call_soon(loop.stop)
        loop.run_forever()
        o = [len(f._callbacks or ()), 1 if f._asyncio_future_blocking else 0]
        if not f.done():
            f.set_result(7)
        for _ in range(5):
            if t.done():
                break
            loop.call_soon(loop.stop)
            loop.run_forever()
        if not t.done():
            t.cancel()
            return o + [[2, [2]]]
        exc = t.exception()
        return o + [[2, xcode(exc)] if exc is not None else [1, C.enc(t.result())]]

    def close(self):
        try:
            for f in self.F:
                if not f.done():
                    f.cancel()
            self.loop.call_soon(self.loop.stop)
            self.loop.run_forever()
        finally:
            self.loop.close()


def store_obs():
    return [C.enc(C.CV[0].get()), C.enc(C.CV[1].get())]


def sync_out(call):
    """run call() -> canonical result of await_sync"""
    from asynkit.coroutine import SynchronousError
    try:
        return [0, C.enc(call())]
    except SynchronousError as e:
        return [2, 1 if "(caught BaseException)" in str(e) else 0,
                [] if e.__cause__ is None else [xcode(e.__cause__)]]
    except BaseException as e:
        # the coroutine's own exception, or one raised by close() in the finally clause (it
        # replaced the SynchronousError); the log tells them apart
        return [1, xcode(e)]


# ----------------------------------------------------------------------------
# stream `sync`
# ----------------------------------------------------------------------------
def impl_sync(case):
    import asynkit
    with C.quiet():
        env = Env()
        b = env.body(case["prog"])
        try:
            made = []

            def mk():
                made.append(b.new())
                return made[-1]

            def run():
                if case.get("via") == "syncfunction":
                    out = sync_out(asynkit.syncfunction(mk))
                else:
                    out = sync_out(lambda: asynkit.await_sync(mk()))
                return [out, b.drain(), C.coro_state(made[0]), store_obs()]
            ob = contextvars.Context().run(run)
            ob.append(env.world() if case.get("ow", True) else [])
            ob.append([env.later(g) for g in range(NFUT)] if case.get("ow", True) else [])
            return ob
        finally:
            b.dispose()
            env.close()


def coq_sync(case):
    return f"({C.coq_prog(case['prog'])}, {L.boolean(case.get('ow', True))})"


def classify(drive):
    """Dry run by hand (no asynkit): how often does the body suspend when it is started,
    aborted and closed?  A suspension in answer to close() inside a nested call is dropped by
    CPython (the child stays suspended, the parent gets RuntimeError): the tree model cannot
    see the handshake flag of a future yielded there -> the futures are not compared ("noworld").
    More than one suspension in answer to close(): case not generated ("drop")."""
    with C.quiet():
        env = Env()
        keep = []
        try:
            def run():
                it = drive(env, keep)
                for a in it:
                    try:
                        take(a.send(None))
                    except StopIteration:
                        continue
                    except BaseException:
                        return "ok"
                    try:
                        take(a.throw(exc_abort()))
                    except BaseException:
                        return "ok"
                    n2 = env.yields
                    try:
                        a.close()
                    except BaseException:
                        pass
                    if env.yields == n2:
                        return "ok"
                    if env.yields > n2 + 1:
                        return "drop"
                    return "ok" if not keep_nested(a) and C.coro_state(a) == 1 else "noworld"
                return "ok"
            return contextvars.Context().run(run)
        finally:
            _dispose_all(keep, None)
            env.close()


def exc_abort():
    from asynkit.coroutine import SynchronousAbort
    return SynchronousAbort()


def keep_nested(a):
    """is `a` anything but the body coroutine itself (a wrapper around it)?"""
    return not isinstance(a, types.CoroutineType) or getattr(a, "_c05_wrapped", False)


def classify_sync(case):
    def drive(env, keep):
        b = env.body(case["prog"])
        keep.append(b)
        yield b.new()
    return classify(drive)


def with_ow(cases, classifier):
    for case in cases:
        k = classifier(case)
        if k == "drop":
            continue
        case["ow"] = k == "ok"
        yield case


def take(y):
    """the receiver's half of the Future handshake, as Task.__step plays it: whoever is handed a
    future by Future.__await__ clears its _asyncio_future_blocking"""
    if getattr(y, "_asyncio_future_blocking", None):
        y._asyncio_future_blocking = False


def hand_drive(c, b, throw_abort=True):
    """reference: the coroutine protocol applied by hand.  Returns (first, log0, second, log1):
    first/second = ['ret', v] | ['exc', code] | ['susp', y-object]"""
    from asynkit.coroutine import SynchronousAbort

    def step(f, *a):
        try:
            y = f(*a)
        except StopIteration as e:
            return ["ret", C.enc(e.value)]
        except BaseException as e:
            return ["exc", xcode(e)]
        take(y)
        return ["susp", y]
    first = step(c.send, None)
    log0 = b.drain()
    if first[0] != "susp" or not throw_abort:
        return first, log0, None, []
    second = step(c.throw, SynchronousAbort())
    return first, log0, second, b.drain()


UNTOUCHED = [0, 0, 0]
LATER_OK = [1, 0, [1, 7]]


def check_futures(ob_world, ob_later, what):
    for g in range(NFUT):
        if ob_world[g] != UNTOUCHED:
            flag = " (_asyncio_future_blocking left set)" if ob_world[g][2] else ""
            return (f"{what}: future F[{g}] was not left untouched: [done, callbacks, flag] = "
                    f"{ob_world[g]}{flag}")
        if ob_later[g] != LATER_OK:
            return (f"{what}: an ordinary Task awaiting F[{g}] afterwards got {ob_later[g]} "
                    f"([callbacks, flag after its first step, outcome]), expected {LATER_OK}")
    return None


def oracle_sync(case, ob):
    if not (isinstance(ob, list) and len(ob) == 6):
        return f"runner failed: {ob!r}"[:200]
    out, log, state, store, world, later = ob
    if not case.get("ow", True):
        return None if out[0] != 0 else f"coroutine suspended three times but await_sync returned {out}"
    with C.quiet():
        env = Env()
        b = env.body(case["prog"])
        try:
            def ref():
                c = b.new()
                r = hand_drive(c, b)
                return r, C.coro_state(c), store_obs()
            (first, log0, second, log1), rstate, rstore = contextvars.Context().run(ref)
        finally:
            b.dispose()
            env.close()
    if first[0] != "susp":
        exp = [0, first[1]] if first[0] == "ret" else [1, first[1]]
        if out != exp:
            return f"coroutine completes without suspending with {first} but await_sync gave {out}"
        if log != log0:
            return f"side effects differ from the native run: {log} vs {log0}"
        if store != rstore:
            return f"ContextVars differ from the native run: {store} vs {rstore}"
        if state != 2:
            return f"coroutine not finished (state {state})"
        return check_futures(world, later, "non-suspending coroutine")
    if second[0] == "susp":
        # outside the property: the body swallowed the abort and suspended again
        if out[0] == 0:
            return f"coroutine suspended but await_sync returned {out}"
        return None
    exp = [2, 0, [second[1]]] if second[0] == "exc" else [2, 1, []]
    if out != exp:
        return (f"coroutine suspends and answers throw(SynchronousAbort) with {second}: expected "
                f"SynchronousError {exp} but got {out}")
    if state != 2:
        return f"coroutine left in state {state}, not finished"
    if log != log0 + log1:
        return f"log {log} but start + abort by hand logs {log0 + log1} (finally blocks / handlers)"
    if store != rstore:
        return f"ContextVars differ from the run by hand: {store} vs {rstore}"
    return check_futures(world, later, "after SynchronousError")


# ---- generators --------------------------------------------------------------
LEAVES = [["log", 1], ["tok", 1], ["tok", 100], ["ret", 5], ["raise", ["E", 1]]]
CLS5 = [["E1"], ["SynchronousAbort"], ["BaseException"], ["GeneratorExit"], ["Exception"]]

SEEDS = [
    # cleanup that awaits while being aborted
    ["fin", ["tok", 100], ["tok", 101]],
    ["fin", ["tok", 100], ["seq", ["log", 1], ["tok", 100]]],
    # swallow the abort: return / suspend again (same future, other future, token)
    ["try", ["tok", 100], ["SynchronousAbort"], ["ret", 6]],
    ["try", ["tok", 100], ["BaseException"], ["tok", 100]],
    ["try", ["tok", 100], ["BaseException"], ["tok", 101]],
    ["seq", ["try", ["tok", 100], ["SynchronousAbort"], ["log", 1]],
     ["try", ["tok", 101], ["GeneratorExit"], ["tok", 100]]],
    ["seq", ["try", ["tok", 100], ["SynchronousAbort"], ["log", 1]],
     ["try", ["tok", 11], ["GeneratorExit"], ["raise", ["E", 2]]]],
    ["seq", ["try", ["tok", 11], ["BaseException"], ["log", 1]],
     ["try", ["tok", 101], ["BaseException"], ["ret", 5]]],
    # the abort turned into something else
    ["try", ["tok", 100], ["SynchronousAbort"], ["raise", ["E", 1]]],
    ["try", ["tok", 100], ["BaseException"], ["raise", ["StopIteration", 4]]],
    ["try", ["tok", 100], ["BaseException"], ["reraise"]],
    # blocked deep inside nested calls with handlers on the way out
    ["fin", ["call", ["fin", ["call", ["seq", ["log", 1], ["tok", 101]]], ["log", 2]]], ["log", 3]],
    ["try", ["call", ["try", ["tok", 100], ["E1"], ["log", 1]]], ["SynchronousAbort"], ["seq", ["log", 2], ["reraise"]]],
    # non-suspending: deep nesting, exceptions through the levels, context variables
    ["seq", ["call", ["call", ["call", ["seq", ["log", 1], ["ret", 6]]]]], ["ret", 5]],
    ["try", ["call", ["call", ["raise", ["E", 1]]]], ["E1"], ["ret", 6]],
    ["seq", ["setvar", 0, 1], ["seq", ["call", ["seq", ["setvar", 1, 2], ["getvar", 0]]], ["getvar", 1]]],
    ["call", ["raise", ["StopIteration", 4]]],
    ["raise", ["StopIteration", None]],
    ["raise", ["SynchronousAbort"]],
    ["raise", ["CancelledError"]],
]


def renumber5(p, counter=None):
    """distinct log numbers; plain tokens numbered 11, 12, ...; futures (>= 100) kept"""
    counter = counter if counter is not None else {"log": 0, "tok": 0}
    k = p[0]
    if k == "log":
        counter["log"] += 1
        return ["log", counter["log"]]
    if k == "tok":
        if p[1] >= 100:
            return p
        counter["tok"] += 1
        return ["tok", 10 + counter["tok"]]
    if k == "call":
        return ["call", renumber5(p[1], counter)]
    if k in ("seq", "fin"):
        a = renumber5(p[1], counter)
        return [k, a, renumber5(p[2], counter)]
    if k == "try":
        a = renumber5(p[1], counter)
        return ["try", a, p[2], renumber5(p[3], counter)]
    return p


def retok(p, rng):
    """random bodies of coro_lang: choose what each await suspends on, add the abort class"""
    k = p[0]
    if k == "tok":
        r = rng.random()
        return ["tok", 1] if r < 0.3 else ["tok", 100 + (0 if r < 0.75 else 1)]
    if k == "call":
        return ["call", retok(p[1], rng)]
    if k in ("seq", "fin"):
        return [k, retok(p[1], rng), retok(p[2], rng)]
    if k == "try":
        cls = list(p[2])
        if rng.random() < 0.35:
            cls[rng.randrange(len(cls))] = "SynchronousAbort"
        return ["try", retok(p[1], rng), cls, retok(p[3], rng)]
    return p


def strip_toks(p):
    """the same body with every await of a token / future replaced by a log statement"""
    k = p[0]
    if k == "tok":
        return ["log", 9]
    if k == "call":
        return ["call", strip_toks(p[1])]
    if k in ("seq", "fin"):
        return [k, strip_toks(p[1]), strip_toks(p[2])]
    if k == "try":
        return ["try", strip_toks(p[1]), p[2], strip_toks(p[3])]
    return p


def nest(p, d):
    for _ in range(d):
        p = ["call", p]
    return p


def has_bare_reraise(p, handled=False):
    k = p[0]
    if k == "reraise":
        return not handled
    if k == "call":
        return has_bare_reraise(p[1], handled)
    if k in ("seq", "fin"):
        return has_bare_reraise(p[1], handled) or has_bare_reraise(p[2], handled)
    if k == "try":
        return has_bare_reraise(p[1], handled) or has_bare_reraise(p[3], True)
    return False


def gen_sync(rng, tier):
    return with_ow(gen_sync_raw(rng, tier), classify_sync)


def gen_sync_raw(rng, tier):
    quick = tier == "quick"
    k = 0
    for p in SEEDS:
        for d in (0, 2):
            k += 1
            yield {"prog": nest(renumber5(p), d), "via": "syncfunction" if k % 2 else "await_sync"}
    # bounded-exhaustive: every body with <= 3 (4) nodes over LEAVES x CLS5
    for n in range(1, 4 if quick else 5):
        for p in C.enum_progs(n, leaves=LEAVES, cls_sets=CLS5):
            k += 1
            yield {"prog": renumber5(p), "via": "syncfunction" if k % 7 == 0 else "await_sync"}
    # the 3-node bodies two calls deep
    for p in C.enum_progs(3, leaves=LEAVES, cls_sets=CLS5):
        if "tok" in repr(p):
            yield {"prog": nest(renumber5(p), 2), "via": "await_sync"}
    # random: larger bodies; every third one has no suspension at all (deeply nested)
    for i in range(1500 if quick else 40000):
        p = C.random_prog(rng, rng.choice([3, 5, 7, 9, 12]), in_handler=False, vars_=(i % 4 == 0))
        p = retok(p, rng)
        if i % 3 == 0:
            p = strip_toks(p)
        p = nest(renumber5(p), rng.choice([0, 0, 1, 2, 4]))
        if has_bare_reraise(p):
            continue
        yield {"prog": p, "via": "syncfunction" if i % 5 == 0 else "await_sync"}


def nontrivial_sync(case, ob):
    try:
        return ob[0][0] == 2 or (len(ob[1]) >= 2 and "call" in repr(case["prog"]))
    except Exception:
        return False


def shrink_prog(p):
    k = p[0]
    subs = {"call": [1], "seq": [1, 2], "fin": [1, 2], "try": [1, 3]}.get(k, [])
    for i in subs:
        yield p[i]
    for i in subs:
        for q in shrink_prog(p[i]):
            r = list(p); r[i] = q
            yield r


def shrink_sync(case):
    def cands():
        for q in shrink_prog(case["prog"]):
            if not has_bare_reraise(q):
                c = dict(case); c["prog"] = q
                yield c
    return with_ow(cands(), classify_sync)


# ----------------------------------------------------------------------------
# stream `aiter`
# ----------------------------------------------------------------------------
def make_iterable(case, env, log, keep):
    bodies = [env.body(p, log) for p in case["bodies"]]
    keep.extend(bodies)
    if case["kind"] == "agen":
        async def agen():
            for b in bodies:
                yield await b.new()
        it = agen()
        keep.append(it)
        return it

    class It:
        def __init__(self):
            self.i = 0

        def __aiter__(self):
            return self

        async def __anext__(self):
            i = self.i
            self.i += 1
            if i >= len(bodies):
                raise StopAsyncIteration
            return await bodies[i].new()
    return It()


def _dispose_all(keep, log):
    for x in keep:
        if isinstance(x, C.Body):
            x.dispose()
    del keep[:]


def impl_aiter(case):
    import asynkit
    with C.quiet():
        env = Env()
        log, keep = [], []
        try:
            def run():
                it = make_iterable(case, env, log, keep)
                g = asynkit.aiter_sync(it)
                keep.append(g)
                def consume():
                    n = 0
                    if case["take"] <= 0:
                        return 2
                    for x in g:
                        log.append([4, 5, C.enc(x)])
                        n += 1
                        if n >= case["take"]:
                            g.close()
                            return 2
                    return 0
                r = sync_out(consume)
                end = [r[1]] if r[0] == 0 else [1, r]
                return [end, list(log), store_obs()]
            ob = contextvars.Context().run(run)
            ob.append(env.world() if case.get("ow", True) else [])
            ob.append([env.later(g) for g in range(NFUT)] if case.get("ow", True) else [])
            return ob
        finally:
            _dispose_all(keep, log)
            env.close()


def classify_aiter(case):
    def drive(env, keep):
        it = make_iterable(case, env, [], keep)
        ai = it.__aiter__()
        for _ in range(max(case["take"], 0)):
            a = ai.__anext__().__await__()
            keep.append(a)
            yield a
    return classify(drive)


def coq_aiter(case):
    ps = L.lst([C.coq_prog(p) for p in case["bodies"]])
    return (f"({L.boolean(case['kind'] == 'agen')}, {ps}, {L.nat(max(case['take'], 0))}, "
            f"{L.boolean(case.get('ow', True))})")


def oracle_aiter(case, ob):
    if not (isinstance(ob, list) and len(ob) == 5):
        return f"runner failed: {ob!r}"[:200]
    end, log, store, world, later = ob
    if not case.get("ow", True):
        return None
    from asynkit.coroutine import SynchronousAbort
    # reference: the __anext__() awaitables driven by hand
    with C.quiet():
        env = Env()
        rlog, keep = [], []
        try:
            def ref():
                it = make_iterable(case, env, rlog, keep)
                ai = it.__aiter__()
                taken = 0
                while True:
                    if taken >= case["take"]:
                        return ["taken"], store_obs()
                    a = ai.__anext__().__await__()
                    keep.append(a)
                    try:
                        take(a.send(None))
                    except StopIteration as e:
                        rlog.append([4, 5, C.enc(e.value)])
                        taken += 1
                        continue
                    except StopAsyncIteration:
                        return ["end"], store_obs()
                    except BaseException as e:
                        return ["exc", xcode(e)], store_obs()
                    # suspended: abort it
                    try:
                        take(a.throw(SynchronousAbort()))
                    except StopIteration:
                        return ["sync", [2, 1, []]], store_obs()
                    except BaseException as e:
                        return ["sync", [2, 0, [xcode(e)]]], store_obs()
                    return ["outside"], store_obs()
            r, rstore = contextvars.Context().run(ref)
            rlog = list(rlog)
        finally:
            _dispose_all(keep, rlog)
            env.close()
    if r[0] == "outside":
        return None
    exp = {"taken": [2], "end": [0]}.get(r[0]) or [1, [1, r[1]] if r[0] == "exc" else r[1]]
    if end != exp:
        return f"aiter_sync ended with {end}; driving __anext__ by hand gives {r} (expected {exp})"
    if log != rlog:
        return f"values/side effects {log} differ from the native sequence {rlog}"
    if store != rstore:
        return f"ContextVars {store} differ from the native run {rstore}"
    return check_futures(world, later, "aiter_sync")


ITEM_POOL = [
    ["ret", 1], ["ret", 2], ["ret", None], ["seq", ["log", 1], ["ret", 3]],
    ["call", ["call", ["seq", ["log", 2], ["ret", 4]]]],
    ["try", ["call", ["raise", ["E", 1]]], ["E1"], ["ret", 6]],
    ["fin", ["ret", 5], ["log", 3]],
]
END_POOL = [
    ["raise", ["StopAsyncIteration"]], ["raise", ["E", 1]], ["raise", ["StopIteration", 4]],
    ["call", ["raise", ["StopAsyncIteration"]]], ["raise", ["CancelledError"]],
    ["tok", 100], ["tok", 11], ["fin", ["tok", 101], ["log", 4]],
    ["try", ["tok", 100], ["SynchronousAbort"], ["ret", 6]],
    ["try", ["tok", 100], ["BaseException"], ["tok", 101]],
    ["seq", ["try", ["tok", 100], ["BaseException"], ["log", 5]], ["fin", ["tok", 101], ["log", 6]]],
    ["seq", ["try", ["tok", 100], ["BaseException"], ["log", 5]], ["try", ["tok", 11], ["GeneratorExit"], ["tok", 101]]],
    ["fin", ["call", ["fin", ["tok", 100], ["log", 7]]], ["log", 8]],
    ["try", ["tok", 101], ["SynchronousAbort"], ["raise", ["StopAsyncIteration"]]],
]


def gen_aiter(rng, tier):
    return with_ow(gen_aiter_raw(rng, tier), classify_aiter)


def gen_aiter_raw(rng, tier):
    quick = tier == "quick"
    for kind in ("class", "agen"):
        # bounded-exhaustive: <= 2 items from the pool, then each ending, then one more item
        for n in (0, 1, 2):
            for items in itertools.product(ITEM_POOL[:4] if n == 2 else ITEM_POOL, repeat=n):
                for e in END_POOL + [None]:
                    bodies = [list(x) for x in items] + ([e, ["ret", 9]] if e is not None else [])
                    yield {"kind": kind, "bodies": bodies, "take": 9}
        for take in (0, 1, 2):
            for e in END_POOL[:6]:
                yield {"kind": kind, "bodies": [["ret", 1], ["seq", ["log", 1], ["ret", 2]], e], "take": take}
    for i in range(500 if quick else 15000):
        n = rng.choice([1, 2, 3, 4])
        bodies = []
        for j in range(n):
            r = rng.random()
            if r < 0.55:
                bodies.append(rng.choice(ITEM_POOL))
            elif r < 0.7:
                bodies.append(rng.choice(END_POOL))
            else:
                p = retok(C.random_prog(rng, rng.choice([2, 3, 5, 7]), vars_=(i % 4 == 0)), rng)
                if rng.random() < 0.6:
                    p = strip_toks(p)
                p = renumber5(p)
                if has_bare_reraise(p):
                    p = ["ret", 7]
                bodies.append(p)
        yield {"kind": rng.choice(["class", "agen"]), "bodies": bodies, "take": rng.choice([9, 9, 9, 1, 2, 3])}


def nontrivial_aiter(case, ob):
    try:
        return len(case["bodies"]) >= 2 and len(ob[1]) >= 2
    except Exception:
        return False


def shrink_aiter(case):
    return with_ow(shrink_aiter_raw(case), classify_aiter)


def shrink_aiter_raw(case):
    bs = case["bodies"]
    for i in range(len(bs)):
        c = dict(case); c["bodies"] = bs[:i] + bs[i + 1:]
        yield c
    for i in range(len(bs)):
        for q in shrink_prog(bs[i]):
            if not has_bare_reraise(q):
                c = dict(case); c["bodies"] = bs[:i] + [q] + bs[i + 1:]
                yield c


# ----------------------------------------------------------------------------
# stream `capture`
# ----------------------------------------------------------------------------
def impl_capture(case):
    import asynkit
    with C.quiet():
        env = Env()
        bodies = [env.body(p) for p, _ in case["bodies"]]

        def yenc(y):
            for g, f in enumerate(env.F):
                if y is f:
                    return [g]
            return C.enc(y)

        def receive(y):
            """what Task.__step does with a yielded object"""
            blocking = getattr(y, "_asyncio_future_blocking", None)
            if blocking is None:
                return []
            if blocking:
                y._asyncio_future_blocking = False
                y.add_done_callback(lambda f: None)
                return []
            return [[5, 105]]
        try:
            def run():
                starts, pend = [], []
                for b, (p, athrow) in zip(bodies, case["bodies"]):
                    cs = asynkit.CoroStart(b.new())
                    y, exc = cs.start_result
                    stop = ([0, yenc(y)] if exc is None else
                            [1, C.enc(exc.value)] if isinstance(exc, StopIteration) else [2, xcode(exc)])
                    starts.append([b.drain(), stop, env.world()])
                    if exc is None:
                        pend.append((cs, b, athrow))
                yields = []
                for cs, b, athrow in pend:
                    it = (cs.athrow(C.make_exn(["E", 1])) if athrow else cs).__await__()
                    b.kept.append(it)
                    try:
                        y = it.send(None)
                    except StopIteration as e:
                        yields.append([b.drain(), [1, C.enc(e.value)], env.world(), env.world(), []])
                        continue
                    except BaseException as e:
                        yields.append([b.drain(), [2, xcode(e)], env.world(), env.world(), []])
                        continue
                    w1 = env.world()
                    err = receive(y)
                    yields.append([b.drain(), [0, yenc(y)], w1, env.world(), err])
                return [starts, yields]
            return contextvars.Context().run(run)
        finally:
            for b in bodies:
                b.dispose()
            env.close()


def coq_capture(case):
    return L.lst([f"({C.coq_prog(p)}, {L.boolean(a)})" for p, a in case["bodies"]])


def only_futures(p):
    k = p[0]
    if k == "tok":
        return p[1] >= 100
    if k == "call":
        return only_futures(p[1])
    if k in ("seq", "fin"):
        return only_futures(p[1]) and only_futures(p[2])
    if k == "try":
        return only_futures(p[1]) and only_futures(p[3])
    return True


def run_on_loop(case, use_eager):
    """all bodies started with eager() / as plain tasks on a real loop; the futures are then
    resolved; per body [outcome, log]"""
    import asynkit
    with C.quiet():
        env = Env()
        bodies = [env.body(p) for p, _ in case["bodies"]]
        loop = env.loop
        flags = []
        try:
            async def main():
                ts = []
                for b in bodies:
                    ts.append(asynkit.eager(b.new()) if use_eager else loop.create_task(b.new()))
                    flags.append([w[2] for w in env.world()])
                for g in range(NFUT):
                    await asyncio.sleep(0)
                    env.F[g].set_result(7)
                    await asyncio.sleep(0)
                return await asyncio.wait_for(asyncio.gather(*ts, return_exceptions=True), 5)
            res = loop.run_until_complete(main())
            out = []
            for b, r in zip(bodies, res):
                out.append([[2, xcode(r)] if isinstance(r, BaseException) else [1, C.enc(r)], b.drain()])
            return out, flags
        finally:
            for b in bodies:
                b.dispose()
            env.close()


def oracle_capture(case, ob):
    if not (isinstance(ob, list) and len(ob) == 2):
        return f"runner failed: {ob!r}"[:200]
    starts, yields = ob
    for i, (evs, stop, world) in enumerate(starts):
        for g in range(NFUT):
            if world[g][2]:
                return (f"after CoroStart(body {i}) returned, F[{g}]._asyncio_future_blocking is still "
                        f"set: nobody else can await the future")
            if world[g][:2] != [0, 0]:
                return f"CoroStart(body {i}) changed F[{g}]: {world[g]}"
    for i, (evs, out, w1, w2, err) in enumerate(yields):
        if out[0] == 0 and isinstance(out[1], list) and len(out[1]) == 1:
            g = out[1][0]
            if not w1[g][2]:
                return (f"the future F[{g}] reaches the Task with _asyncio_future_blocking clear "
                        f"(yield {i}): Task would raise 'yield was used instead of yield from'")
            if err:
                return f"Task protocol error on yield {i}: {err}"
    if all(only_futures(p) for p, _ in case["bodies"]) and not any(a for _, a in case["bodies"]):
        eager, flags = run_on_loop(case, True)
        plain, _ = run_on_loop(case, False)
        for i, fl in enumerate(flags):
            if any(fl):
                return f"after eager(body {i}) a future is left with _asyncio_future_blocking set: {fl}"
        if eager != plain:
            for i, (a, b) in enumerate(zip(eager, plain)):
                if a != b:
                    return (f"eager(body {i}) gives [outcome, log] {a} but a plain task gives {b} "
                            f"(bodies share futures)")
    return None


CAP_BODIES = [
    ["tok", 100], ["tok", 101], ["seq", ["log", 1], ["tok", 100]],
    ["seq", ["tok", 100], ["seq", ["tok", 101], ["ret", 5]]],
    ["seq", ["tok", 101], ["tok", 100]],
    ["try", ["tok", 100], ["E1"], ["tok", 101]],
    ["try", ["tok", 100], ["E1"], ["tok", 100]],
    ["try", ["tok", 100], ["E1"], ["tok", 11]],
    ["try", ["tok", 11], ["E1"], ["tok", 101]],
    ["fin", ["call", ["tok", 100]], ["log", 2]],
    ["try", ["tok", 101], ["E1"], ["ret", 6]],
    ["ret", 5], ["raise", ["E", 2]], ["tok", 11],
    ["seq", ["call", ["seq", ["log", 3], ["ret", 1]]], ["tok", 100]],
]


def gen_capture(rng, tier):
    quick = tier == "quick"
    for p in CAP_BODIES:
        for a in (False, True):
            yield {"bodies": [[p, a]]}
    for p, q in itertools.product(CAP_BODIES, repeat=2):
        yield {"bodies": [[p, False], [q, False]]}
    for p, q in itertools.product(CAP_BODIES[:11], repeat=2):
        yield {"bodies": [[p, True], [q, False]]}
        yield {"bodies": [[p, False], [q, True]]}
    for i in range(400 if quick else 10000):
        n = rng.choice([1, 2, 2, 3])
        bodies = []
        for j in range(n):
            if rng.random() < 0.4:
                p = rng.choice(CAP_BODIES)
            else:
                p = retok(C.random_prog(rng, rng.choice([2, 3, 5, 7])), rng)
                if i % 2:
                    p = to_futures(p)
                p = renumber5(p)
                if has_bare_reraise(p):
                    p = ["tok", 100]
            bodies.append([p, rng.random() < 0.25])
        yield {"bodies": bodies}


def to_futures(p):
    k = p[0]
    if k == "tok":
        return p if p[1] >= 100 else ["tok", 100]
    if k == "call":
        return ["call", to_futures(p[1])]
    if k in ("seq", "fin"):
        return [k, to_futures(p[1]), to_futures(p[2])]
    if k == "try":
        return ["try", to_futures(p[1]), p[2], to_futures(p[3])]
    return p


def nontrivial_capture(case, ob):
    try:
        return any(s[1][0] == 0 and isinstance(s[1][1], list) and len(s[1][1]) == 1 for s in ob[0])
    except Exception:
        return False


def shrink_capture(case):
    bs = case["bodies"]
    if len(bs) > 1:
        for i in range(len(bs)):
            yield {"bodies": bs[:i] + bs[i + 1:]}
    for i in range(len(bs)):
        if bs[i][1]:
            yield {"bodies": bs[:i] + [[bs[i][0], False]] + bs[i + 1:]}
        for q in shrink_prog(bs[i][0]):
            if not has_bare_reraise(q):
                yield {"bodies": bs[:i] + [[q, bs[i][1]]] + bs[i + 1:]}


# ----------------------------------------------------------------------------
def signature(stream, case, msg):
    if "_asyncio_future_blocking" in msg or "[5, 102]" in msg or "await wasn't used" in msg:
        return F1
    return f"C05-{stream}"


def describe(case):
    d = dict(case)
    if "prog" in case:
        d["source"] = C.render(case["prog"])
    elif case.get("bodies") and isinstance(case["bodies"][0], list) and case["bodies"][0] and \
            isinstance(case["bodies"][0][0], list) and "kind" not in case:
        d["source"] = [C.render(p) for p, _ in case["bodies"]]
    else:
        d["source"] = [C.render(p) for p in case.get("bodies", [])]
    d["note"] = "tok(y) with y >= 100 is `await F[y-100]`, a real pending asyncio Future"
    return d


PROP = Prop(
    pid="C05",
    props_v="theories/Props/C05.v",
    theory_files=["theories/Coro/Tree.v", "theories/Coro/Native.v", "theories/Coro/Prog.v",
                  "theories/Coro/TreeProofs.v", "theories/Coro/AwaitSync.v",
                  "theories/Coro/AwaitSyncProofs.v", "theories/Coro/AwaitSyncCorr.v"],
    streams=[
        Stream(name="sync", imports=IMPORTS, run="sync_run", input_type="prog * bool", gen=gen_sync,
               impl=impl_sync, to_coq=coq_sync, oracle=oracle_sync, nontrivial=nontrivial_sync,
               shrink=shrink_sync, describe=describe, corr_name="await_sync / syncfunction (AwaitSync.v)"),
        Stream(name="aiter", imports=IMPORTS, run="aiter_run", input_type="bool * list prog * nat * bool",
               gen=gen_aiter, impl=impl_aiter, to_coq=coq_aiter, oracle=oracle_aiter,
               nontrivial=nontrivial_aiter, shrink=shrink_aiter, describe=describe,
               corr_name="aiter_sync (AwaitSync.v)"),
        Stream(name="capture", imports=IMPORTS, run="capture_run", input_type="list (prog * bool)",
               gen=gen_capture, impl=impl_capture, to_coq=coq_capture, oracle=oracle_capture,
               nontrivial=nontrivial_capture, shrink=shrink_capture, describe=describe,
               corr_name="CoroStart handshake flag (AwaitSync.v csf_*)"),
    ],
    rule="sync: every body with <= 3 nodes (thorough: 4) over {log, await token, await REAL pending "
         "Future, return, raise E1, nested call, seq, try/except over {E1, SynchronousAbort, BaseException, "
         "GeneratorExit, Exception} with handlers that log/return/raise/re-raise/await, finally}, 20 seed "
         "bodies, each also nested 2 calls deep, random bodies of 3..12 nodes nested 0..4 deep (a third "
         "without any suspension); aiter: class-based iterators and native async generators of <= 2 items "
         "from a pool x 14 endings (+ take 0..2), random lists of <= 4 bodies; capture: all ordered pairs "
         "of 15 bodies sharing two futures, with/without athrow, random triples.  Non-trivial = the body "
         "suspended, or completed through nested calls; distinct = distinct canonical JSON",
    signature=signature,
    assumptions=["CPython 3.12 coroutine protocol as modelled by Coro/Tree.v + Native.v (validated by C02's "
                 "`native` stream); asyncio's Future/Task handshake as transcribed in AwaitSync.v",
                 "the futures' handshake flags are clear when await_sync is called (no Task step in progress)",
                 "bodies contain no bare `raise` outside a handler (inside close() it would pick up the "
                 "SynchronousError being propagated; outside the property's domain)"],
)
