"""C07 - Monitor out-of-band channel: exactly once, in order, both directions.

Streams
  raw  : one body (log / token awaits / `await M[m].oob(d)` / nested calls /
         handlers / finally) driven through real asynkit Monitors by a history of
         calls {aawait(v), athrow(E), aclose, start, try_await(v, sentinel)}, plain
         or through a BoundMonitor (methods or `await BoundMonitor`); every call
         is a coroutine object driven by raw send / throw / close; after a step
         that leaves the call suspended at a real suspension an optional
         re-entrant call on the same monitor is probed; a call that is abandoned
         is closed (close() of the relay).
  nest : nested monitors: a stack of script coroutines, each driving the next
         one through some monitor and itself talking (oob) to the monitors above
         it, the innermost body talking to all of them; the outermost coroutine is
         driven by raw send/throw/close (mode 0), as a real Task on a real loop
         stepped one handle at a time (mode 1; tokens are futures) or by
         asynkit.await_sync (mode 2).
Observation after every driver step: the body's log, what came out, Monitor.state
of every monitor (+ the probe's outcome).
Oracles (independent of the Coq model): predicates on the observation
(oob calls logged by the body == OOBData received, in order, exactly once;
answers reach the oob that asked; idle after every completed call; probes
refused and without effect) and a reference monitor (`RefMonitor`, explicit
tagged yields instead of the state flag) run on the same input.
"""
from __future__ import annotations

import itertools
import random
import types

from .. import coqlit as L
from .. import coro_lang as C
from ..framework import Prop, Stream

IMPORTS = ["Coro.Tree", "Coro.Native", "Coro.Monitor", "Coro.MonitorCorr"]
IGN = [5, 1]            # RuntimeError(".. ignored GeneratorExit")
REENTERED = [2, [5, 7]]


# ----------------------------------------------------------------------------
# reference monitor: the protocol with explicitly tagged out-of-band yields
# ----------------------------------------------------------------------------
class _Tag:
    __slots__ = ("mon", "d")

    def __init__(self, mon, d):
        self.mon, self.d = mon, d


class RefMonitor:
    """what a Monitor is meant to do, written with a tagged yield instead of the state flag"""

    def __init__(self):
        self.active = False

    @property
    def state(self):
        return 1 if self.active else 0

    @types.coroutine
    def oob(self, data=None):
        if not self.active:
            raise RuntimeError("Monitor not active")
        return (yield _Tag(self, data))

    @types.coroutine
    def _relay(self, coro, first, arg):
        OOB = C.exc_class("OOBData")
        if self.active:
            raise RuntimeError("Monitor cannot be re-entered")
        self.active = True
        try:
            try:
                out = first(arg)
            except StopIteration as e:
                return e.value
            except OOB:
                raise RuntimeError("coroutine raised OOBData")
            while True:
                if type(out) is _Tag and out.mon is self:
                    raise OOB(out.d)
                exc = None
                try:
                    value = yield out
                except BaseException as e:      # noqa: B036
                    exc = e
                try:
                    if exc is None:
                        out = coro.send(value)
                    elif isinstance(exc, GeneratorExit):
                        coro.close()
                        raise exc
                    else:
                        out = coro.throw(exc)
                except StopIteration as e:
                    return e.value
                finally:
                    exc = None
        finally:
            self.active = False

    async def aawait(self, coro, data=None):
        return await self._relay(coro, coro.send, data)

    async def athrow(self, coro, exc):
        return await self._relay(coro, coro.throw, exc)

    async def aclose(self, coro):
        OOB = C.exc_class("OOBData")
        if coro.cr_frame is None:
            return
        try:
            await self.athrow(coro, GeneratorExit())
        except GeneratorExit:
            pass
        except OOB:
            raise RuntimeError("Monitor coroutine ignored GeneratorExit")

    async def start(self, coro):
        OOB = C.exc_class("OOBData")
        try:
            await self.aawait(coro)
        except OOB as o:
            return o.data
        raise RuntimeError("Coroutine did not await Monitor.oob()")

    async def try_await(self, coro, data=None, sentinel=None):
        OOB = C.exc_class("OOBData")
        try:
            return await self.aawait(coro, data)
        except OOB:
            return sentinel


# ----------------------------------------------------------------------------
# bodies
# ----------------------------------------------------------------------------
def enc(v):
    """tokens of the Task mode are futures carrying their number"""
    t = getattr(v, "tag", None)
    return t if isinstance(t, int) else C.enc(v)


def xc(e):
    if type(e).__name__ == "OOBData" and isinstance(getattr(e.data, "tag", None), int):
        return [10, e.data.tag]
    return C.exc_code(e)


class _Render(C._Render):
    def stmts(self, p, ind):
        if p[0] == "oob":
            pad = "    " * ind
            return [pad + f"L.append([4, {int(p[1])}, enc({C._pyval(p[2])})])",
                    pad + f"L.append([1, enc(await M[{int(p[1])}].oob({C._pyval(p[2])}))])"]
        return super().stmts(p, ind)


def render(p):
    r = _Render()
    r.func(p)
    return "\n".join(r.funcs)


class MBody:
    """compiled body + the monitors it talks to + everything that must be kept alive"""

    def __init__(self, p, nm, ref=False):
        if ref:
            self.M = [RefMonitor() for _ in range(nm)]
        else:
            import asynkit
            self.M = [asynkit.Monitor() for _ in range(nm)]
        self.ref = ref
        self.log: list = []
        self.kept: list = []
        self.ns = {"L": self.log, "enc": enc, "xc": xc, "tok": C.tok, "X": C.exc_class,
                   "M": self.M, "keep": self.keep}
        if p is not None:
            exec(compile(render(p), "<mprog>", "exec"), self.ns)

    def keep(self, c):
        self.kept.append(c)
        return c

    def new(self):
        return self.keep(self.ns["f0"]())

    def drain(self):
        out = list(self.log)
        del self.log[:]
        return out

    def states(self):
        return [m.state for m in self.M]

    def dispose(self):
        self.ns["L"] = []
        self.log = []
        for c in reversed(self.kept):
            for _ in range(50):
                try:
                    c.close()
                    break
                except BaseException:       # noqa: B036
                    pass
        del self.kept[:]

    # -- the calls ----------------------------------------------------------
    def call(self, m, sub, cl, bound=0):
        """coroutine object of one Monitor call on the coroutine `sub`"""
        mon = self.M[m]
        k = cl[0]
        if self.ref and bound:
            # BoundMonitor's methods are `return await self.monitor.<method>(self.coro, ..)`
            return self.keep(C.lift(self.call(m, sub, cl, 0)))
        if not bound:
            tgt, args = mon, (sub,)
        else:
            import asynkit
            tgt, args = asynkit.BoundMonitor(mon, sub), ()
            if bound == 2 and k == "aawait" and cl[1] is None:
                return self.keep(C.lift(tgt))               # `await BoundMonitor`
        if k == "aawait":
            c = tgt.aawait(*args, cl[1])
        elif k == "athrow":
            c = tgt.athrow(*args, C.make_exn(cl[1]))
        elif k == "aclose":
            c = tgt.aclose(*args)
        elif k == "start":
            c = tgt.start(*args)
        elif k == "try":
            c = tgt.try_await(*args, cl[1], cl[2])
        else:
            raise KeyError(k)
        return self.keep(c)

    async def script(self, items, sub):
        Lg = self.log
        for it in items:
            try:
                k = it[0]
                if k == "call":
                    r = await self.call(it[1], sub, it[2], it[3] if len(it) > 3 else 0)
                    Lg.append([3, enc(r)])
                elif k == "oob":
                    Lg.append([4, it[1], C.enc(it[2])])
                    r = await self.M[it[1]].oob(it[2])
                    Lg.append([1, enc(r)])
                elif k == "tok":
                    r = await self.ns["tok"](it[1])
                    Lg.append([1, enc(r)])
                else:
                    Lg.append([0, it[1]])
            except Exception as e:
                Lg.append([2, xc(e)])
        return None


# ----------------------------------------------------------------------------
# stream raw
# ----------------------------------------------------------------------------
def run_raw(case, ref=False, probes=True):
    with C.quiet():
        b = MBody(case["prog"], case["nm"], ref)
        try:
            inner = b.new()
            out = []
            for cc in case["calls"]:
                m = cc["m"]
                co = b.call(m, inner, cc["cl"], cc.get("b", 0))
                steps = []

                def step(op, pc):
                    o = C.apply_op(co, op)
                    rec = [b.drain(), o, b.states(), []]
                    if o[0] == 0 and pc is not None and probes:
                        pco = b.call(m, inner, pc, 0)
                        po = C.apply_op(pco, ["send", None])
                        rec[3] = [b.drain(), po, b.states()]
                    steps.append(rec)
                    return o[0] == 0

                live = step(["send", None], cc.get("probe"))
                for op, pc in cc["ops"]:
                    if not live:
                        break
                    live = step(op, pc)
                if live:
                    step(["close"], None)
                out.append(steps + [C.coro_state(inner)])
            return out
        finally:
            b.dispose()


def impl_raw(case):
    return run_raw(case)


def coq_opt(x, f):
    return "None" if x is None else f"(Some ({f(x)}))"


def coq_call(cl):
    k = cl[0]
    if k == "aawait":
        return f"CAwait {C.coq_val(cl[1])}"
    if k == "athrow":
        return f"CThrow {C.coq_exn(cl[1])}"
    if k == "aclose":
        return "CClose"
    if k == "start":
        return "CStart"
    return f"CTry {C.coq_val(cl[1])} {C.coq_val(cl[2])}"


def coq_mprog(p):
    k = p[0]
    if k == "skip":
        return "MSkip"
    if k == "log":
        return f"(MLog {L.z(p[1])})"
    if k == "tok":
        return f"(MTok {L.z(p[1])})"
    if k == "oob":
        return f"(MOob {L.z(p[1])} {C.coq_val(p[2])})"
    if k == "call":
        return f"(MCall {coq_mprog(p[1])})"
    if k == "seq":
        return f"(MSeq {coq_mprog(p[1])} {coq_mprog(p[2])})"
    if k == "try":
        return f"(MTry {coq_mprog(p[1])} {L.lst([C.coq_cls(c) for c in p[2]])} {coq_mprog(p[3])})"
    if k == "fin":
        return f"(MFin {coq_mprog(p[1])} {coq_mprog(p[2])})"
    if k == "ret":
        return f"(MReturn {C.coq_val(p[1])})"
    if k == "raise":
        return f"(MRaise {C.coq_exn(p[1])})"
    if k == "reraise":
        return "MReraise"
    raise ValueError(p)


def coq_rawop(o):
    return f"({C.coq_dop(o[0])}, {coq_opt(o[1], coq_call)})"


def coq_raw(case):
    calls = [f"({L.z(c['m'])}, {L.boolean(bool(c.get('b', 0)))}, {coq_call(c['cl'])}, {coq_opt(c.get('probe'), coq_call)}, "
             f"{L.lst([coq_rawop(o) for o in c['ops']])})" for c in case["calls"]]
    return f"({coq_mprog(case['prog'])}, {L.nat(case['nm'])}, {L.lst(calls)})"


def tokens_of(p, acc=None):
    acc = set() if acc is None else acc
    if isinstance(p, list):
        if p and p[0] == "tok":
            acc.add(p[1])
        for x in p:
            tokens_of(x, acc)
    return acc


def has_marker(step):
    """'ignored GeneratorExit' seen in this step (log or outcome or probe)"""
    return "[5, 1]" in repr(step)


def cut_steps(ref_steps):
    for i, s in enumerate(ref_steps):
        if has_marker(s):
            return i
    return len(ref_steps)


def delivered(cl, out):
    """the out-of-band datum this call's outcome stands for, if any: (True, d)"""
    k = cl[0]
    if k in ("aawait", "athrow") and out[0] == 2 and out[1][0] == 10:
        return True, out[1][1]
    if k == "start" and out[0] == 1:
        return True, out[1]
    if k == "try" and out == [1, C.enc(cl[2])]:
        return True, None           # the datum itself is discarded
    if k == "aclose" and out == [2, IGN]:
        return True, None
    return False, None


def expected_thrown(e):
    x = C.exc_code(C.make_exn(e))
    return [5, 4] if x[0] == 3 else x     # StopIteration into the oob() generator: PEP 479


def oracle_raw(case, ob):
    if not isinstance(ob, list) or (ob and ob[0] == -999):
        return f"runner failed: {ob!r}"[:200]
    if case.get("corr_only"):
        return None
    toks = tokens_of(case["prog"])
    has_fin = '"fin"' in repr(case["prog"]).replace("'", '"')   # a finally block may replace what was thrown
    issued, received = [], []
    pending = None          # (d) an oob of the driving monitor waiting for its answer
    stop = False
    flat_i = -1             # index of the current step in the flattened run
    stop_at = None          # flattened index of the step in which the carve-out was entered
    for ci, (cc, rec) in enumerate(zip(case["calls"], ob)):
        m, cl = cc["m"], cc["cl"]
        steps = rec[:-1]
        for si, (log, out, states, pr) in enumerate(steps):
            flat_i += 1
            where = f"call {ci} ({cl[0]}) step {si}"
            op_in = (cl if si == 0 else (cc["ops"][si - 1][0] if si - 1 < len(cc["ops"]) else ["close"]))
            closing = op_in in (["close"], ["aclose"], ["throw", ["GeneratorExit"]],
                                ["athrow", ["GeneratorExit"]])
            if has_marker([log, out]) or (closing and any(e[0] == 4 for e in log)):
                stop = True     # an oob()/yield while being closed: by design an error; carve-out
                if closing and any(e[0] == 4 for e in log):
                    # judged from the body's own events only (never from what the implementation
                    # answered): an oob() was really issued while the coroutine was being closed
                    stop_at = flat_i
                break
            # the answer of the previous oob goes to that oob
            if pending is not None and si == 0:
                a1 = cl[1] if len(cl) > 1 else None
                inp = {"aawait": ("send", a1), "try": ("send", a1), "start": ("send", None),
                       "athrow": ("throw", a1), "aclose": ("throw", ["GeneratorExit"])}[cl[0]]
                if out != REENTERED or log:
                    if inp[0] == "send":
                        if not log or log[0] != [1, C.enc(inp[1])]:
                            return (f"{where}: oob({pending}) was answered with {inp[1]} but the body "
                                    f"logged {log[:1]}")
                    elif not has_fin:
                        exp = expected_thrown(inp[1])
                        if log and log[0][0] == 1:
                            return f"{where}: {inp[1]} thrown at oob({pending}) but oob() returned {log[0]}"
                        if log and log[0][0] == 2 and log[0][1] != exp:
                            return f"{where}: {inp[1]} thrown at oob({pending}) but the body caught {log[0][1]}"
                    pending = None
            # states
            if out[0] == 0:
                if states[m] != 1 or any(s != 0 for i, s in enumerate(states) if i != m):
                    return f"{where}: suspended at a real suspension with monitor states {states}"
                if out[1] not in toks:
                    return f"{where}: {out[1]} was yielded outward but is not a token the body awaits"
            else:
                if any(s != 0 for s in states):
                    return f"{where}: the call is over ({out}) but monitor states are {states}"
            # probe
            if pr:
                if pr[0] or pr[1] != REENTERED or pr[2] != states:
                    return f"{where}: re-entrant call gave {pr}, expected {[[], REENTERED, states]}"
            # oob calls made by the body in this step
            for j, ent in enumerate(log):
                if ent[0] != 4:
                    continue
                mm, d = ent[1], ent[2]
                last = j == len(log) - 1
                if mm == m:
                    issued.append(d)
                    if not last:
                        return f"{where}: the body went on after oob({d}) on the driving monitor: {log[j:]}"
                    ok, got = delivered(cl, out)
                    if not ok:
                        return f"{where}: oob({d}) issued but the call gave {out}"
                    if got is not None or cl[0] in ("aawait", "athrow", "start"):
                        if got != d:
                            return f"{where}: oob({d}) issued but the driver received {got}"
                    received.append(d)
                    pending = d
                else:
                    if not last and log[j + 1][0] == 1:
                        return f"{where}: oob on the idle monitor {mm} returned {log[j + 1]}"
                    if last and out[0] == 2 and out[1][0] == 10:
                        return f"{where}: oob on the idle monitor {mm} surfaced as {out}"
            # OOBData that nobody issued
            if out[0] == 2 and out[1][0] == 10 and not (log and log[-1][:2] == [4, m]):
                return f"{where}: OOBData {out[1][1]} received but the body's last action was {log[-1:]}"
        if stop:
            break
    if issued != received:
        return f"oob calls {issued} but OOBData received {received}"
    # a refused re-entrant call must not disturb the use in progress
    if any(c.get("probe") or any(o[1] for o in c["ops"]) for c in case["calls"]):
        plain = run_raw(case, probes=False)
        mine = [[[s[0], s[1], s[2], []] for s in rec[:-1]] + [rec[-1]] for rec in ob]
        if plain != mine:
            return f"the run without the re-entrant calls differs: {L and C and first_diff(plain, mine)}"
    # reference monitor (tagged yields)
    ref = run_raw(case, ref=True)
    return compare_ref(flat_raw(ref), flat_raw(ob), limit=stop_at)


def flat_raw(ob):
    return [s for rec in ob for s in rec[:-1]] + [["inner states"] + [rec[-1] for rec in ob]]


def first_diff(a, b):
    from ..coqlit import first_diff as fd
    try:
        return fd(a, b)
    except Exception:
        return (a, b)


def compare_ref(ref, got, limit=None):
    n = cut_steps(ref[:-1]) if ref and isinstance(ref[-1], list) and ref[-1][:1] == ["inner states"] \
        else cut_steps(ref)
    if limit is not None:
        # the step in which an oob() was issued while the coroutine was being closed, and everything after
        # it, is outside the property (C07's own carve-out: the designed RuntimeError may leave the monitor
        # expecting a datum); the reference is only compared up to that step
        n = min(n, limit)
    for i in range(n):
        if i >= len(got) or got[i] != ref[i]:
            return (f"step {i}: asynkit gives {got[i] if i < len(got) else None} but the reference "
                    f"monitor (tagged yields) gives {ref[i]}")
    if n == len(ref) - 1 and ref[-1][:1] == ["inner states"] and got[-1] != ref[-1]:
        return f"driven coroutine states {got[-1][1:]} but under the reference monitor {ref[-1][1:]}"
    return None


def nontrivial_raw(case, ob):
    try:
        n_oob = sum(1 for rec in ob for s in rec[:-1] for e in s[0] if e[0] == 4)
        return n_oob >= 1 and len(ob) >= 2
    except Exception:
        return False


# ----------------------------------------------------------------------------
# stream nest
# ----------------------------------------------------------------------------
def build_node(b: MBody, node):
    if node[0] == "body":
        exec(compile(render(node[1]), "<mprog>", "exec"), b.ns)
        return b.new()
    sub = build_node(b, node[2])
    return b.keep(b.script(node[1], sub))


def run_nest(case, ref=False):
    mode = case["mode"]
    with C.quiet():
        b = MBody(None, case["nm"], ref)
        try:
            if mode == 1:
                return run_task(case, b)
            top = build_node(b, case["node"])
            if mode == 2:
                import asynkit
                try:
                    r = asynkit.await_sync(top)
                    out = [1, C.enc(r)]
                except BaseException as e:      # noqa: B036
                    out = [2, C.exc_code(e)]
                return [[b.drain(), out, b.states()]]
            return C.drive(top, case["ops"], b, stop_at_end=True, after_step=lambda o: [b.states()])
        finally:
            b.dispose()


def run_task(case, b: MBody):
    import asyncio
    from ..steploop import World
    w = World("stock")
    with w:
        loop = w.loop

        @types.coroutine
        def ftok(y):
            # `await future` whose answer may also come from somebody who is not the Task (a
            # monitor resuming a coroutine that was left at a real suspension): same
            # behaviour as the token helper of the raw mode
            f = loop.create_future()
            f.tag = y
            f._asyncio_future_blocking = True
            v = yield f
            return f.result() if f.done() else v
        b.ns["tok"] = ftok
        top = build_node(b, case["node"])
        task = w.create_task(top)
        answers = case["ops"][1:]
        trace = []
        for j in range(len(answers) + 1):
            w.run_quiescent(max_steps=500)
            if task.done():
                if task.cancelled():
                    out = [2, [2]]
                elif task.exception() is not None:
                    out = [2, xc(task.exception())]
                else:
                    out = [1, enc(task.result())]
                trace.append([b.drain(), out, b.states()])
                break
            f = task._fut_waiter
            tag = getattr(f, "tag", None)
            trace.append([b.drain(), [0, tag if tag is not None else [99]], b.states()])
            if j == len(answers) or f is None:
                break
            op = answers[j]
            if op[0] == "send":
                f.set_result(op[1])
            elif op[1] == ["CancelledError"]:
                task.cancel()
            else:
                f.set_exception(C.make_exn(op[1]))
        if not task.done():
            b.ns["L"] = []
            saved, b.log = b.log, []
            task.cancel()
            try:
                w.run_quiescent(max_steps=200)
            except BaseException:       # noqa: B036
                pass
            b.log = saved
            del b.log[:]
        elif not task.cancelled():
            task.exception()
        return trace


def impl_nest(case):
    return run_nest(case)


def coq_item(it):
    k = it[0]
    if k == "call":
        return f"ICall {L.z(it[1])} ({coq_call(it[2])})"
    if k == "oob":
        return f"IOob {L.z(it[1])} {C.coq_val(it[2])}"
    if k == "tok":
        return f"ITok {L.z(it[1])}"
    return f"ILog {L.z(it[1])}"


def coq_node(n):
    if n[0] == "body":
        return f"(NBody {coq_mprog(n[1])})"
    return f"(NMid {L.lst([coq_item(i) for i in n[1]])} {coq_node(n[2])})"


def coq_nest(case):
    return (f"({coq_node(case['node'])}, {L.nat(case['nm'])}, {L.z(case['mode'])}, "
            f"{C.coq_ops(case['ops'])})")


def node_oob_sites(n, acc):
    """datum -> monitor for every oob site of the node"""
    if n[0] == "body":
        def walk(p):
            if isinstance(p, list):
                if p and p[0] == "oob":
                    acc[C.enc(p[2]) if not isinstance(C.enc(p[2]), list) else None] = p[1]
                for x in p:
                    walk(x)
        walk(n[1])
    else:
        for it in n[1]:
            if it[0] == "oob":
                acc[it[2]] = it[1]
        node_oob_sites(n[2], acc)
    return acc


def call_mons(n):
    if n[0] == "body":
        return set()
    return {it[1] for it in n[1] if it[0] == "call"} | call_mons(n[2])


def node_tokens(n):
    if n[0] == "body":
        return tokens_of(n[1])
    return {it[1] for it in n[1] if it[0] == "tok"} | node_tokens(n[2])


def oracle_nest(case, ob):
    if not isinstance(ob, list) or (ob and ob[0] == -999):
        return f"runner failed: {ob!r}"[:200]
    if case.get("corr_only"):
        return None
    ref = run_nest(case, ref=True)
    n = cut_steps(ref)
    sites = node_oob_sites(case["node"], {})
    toks = node_tokens(case["node"])
    issued = {m: [] for m in range(case["nm"])}
    got = {m: [] for m in range(case["nm"])}
    # monitors used by the outermost script only: idle once that script is over
    top_only = {it[1] for it in case["node"][1] if it[0] == "call"} - call_mons(case["node"][2])
    for i, (log, out, states) in enumerate(ob[:n]):
        if any(s not in (0, 1) for s in states):
            return f"step {i}: monitor states {states} between driver steps"
        if out[0] != 0 and any(states[m] != 0 for m in top_only):
            return f"step {i}: the outermost coroutine is over ({out}) but monitor states are {states}"
        if out[0] == 0 and out[1] not in toks:
            return f"step {i}: {out[1]} reached the outermost driver but is not an awaited token"
        if out[0] == 2 and out[1] == [5, 199] and case["mode"] == 1:
            return f"step {i}: the Task failed with an unexpected RuntimeError (bad yield?)"
        for ent in log:
            if ent[0] == 4:
                issued[ent[1]].append(ent[2])
            d = None
            if ent[0] == 2 and ent[1][0] == 10:
                d = ent[1][1]
            elif ent[0] == 3 and not isinstance(ent[1], list) and ent[1] in sites:
                d = ent[1]
            if d is not None and d in sites:
                mm = sites[d]
                if d not in issued[mm]:
                    return f"step {i}: OOBData {d} received before oob({d}) was called"
                if d in got[mm]:
                    return f"step {i}: OOBData {d} received twice"
                got[mm].append(d)
    if n == len(ref):
        for mm in issued:
            order = [d for d in issued[mm] if d in got[mm]]
            if order != got[mm]:
                return f"monitor {mm}: oob calls {issued[mm]} but OOBData received in order {got[mm]}"
    return compare_ref(ref, ob)


def nontrivial_nest(case, ob):
    try:
        return sum(1 for s in ob for e in s[0] if e[0] == 4) >= 1 and \
            sum(1 for s in ob for e in s[0] if e[0] in (2, 3)) >= 1
    except Exception:
        return False


# ----------------------------------------------------------------------------
# generators
# ----------------------------------------------------------------------------
def renumber(p, cnt):
    """distinct numbers: log 1.., tokens 11.., oob data 51.."""
    k = p[0]
    if k == "log":
        cnt["log"] += 1
        return ["log", cnt["log"]]
    if k == "tok":
        cnt["tok"] += 1
        return ["tok", 10 + cnt["tok"]]
    if k == "oob":
        cnt["oob"] += 1
        return ["oob", p[1], 50 + cnt["oob"]]
    if k == "call":
        return ["call", renumber(p[1], cnt)]
    if k in ("seq", "fin"):
        a = renumber(p[1], cnt)
        return [k, a, renumber(p[2], cnt)]
    if k == "try":
        a = renumber(p[1], cnt)
        return ["try", a, p[2], renumber(p[3], cnt)]
    return p


def new_cnt():
    return {"log": 0, "tok": 0, "oob": 0}


LEAVES = [["log", 1], ["tok", 1], ["oob", 0, 1], ["ret", 5], ["raise", ["E", 1]]]
CLS_SETS = [["E1"], ["GeneratorExit"], ["BaseException"], ["RuntimeError"], ["Exception"]]
CALLS_SMALL = [["aawait", None], ["aawait", 71], ["athrow", ["E", 1]], ["aclose"], ["start"],
               ["try", 72, 91]]
THROWS = [["E", 1], ["E", 2], ["BaseE", 1], ["CancelledError"], ["GeneratorExit"],
          ["StopIteration", None], ["StopIteration", 3], ["OOBData", 4]]


def with_oob(rng, p, nm, prob=0.55):
    """replace some token awaits / logs of a random prog by oob calls"""
    k = p[0]
    if k in ("tok", "log") and rng.random() < prob:
        return ["oob", rng.randrange(nm), 1]
    if k == "call":
        return ["call", with_oob(rng, p[1], nm, prob)]
    if k in ("seq", "fin"):
        return [k, with_oob(rng, p[1], nm, prob), with_oob(rng, p[2], nm, prob)]
    if k == "try":
        return ["try", with_oob(rng, p[1], nm, prob), p[2], with_oob(rng, p[3], nm, prob)]
    if k in ("setvar", "getvar"):
        return ["log", 1]
    return p


def random_body(rng, nm, size=None):
    size = size or rng.choice([3, 5, 7, 9, 12])
    p = C.random_prog(rng, size)
    return renumber(with_oob(rng, p, nm), new_cnt())


def random_call(rng, k=[0], first=False):
    r = rng.random()
    k[0] += 1
    v = rng.choice([None, 70 + k[0] % 9])
    if first and rng.random() < 0.85:
        v = None
        r = r * 0.45 if r < 0.75 else r
    if r < 0.45:
        return ["aawait", v]
    if r < 0.65:
        return ["athrow", rng.choice(THROWS)]
    if r < 0.75:
        return ["aclose"]
    if r < 0.85:
        return ["start"]
    return ["try", v, rng.choice([None, 91, 92])]


def random_rawops(rng, n, probes):
    ops = []
    for _ in range(n):
        r = rng.random()
        if r < 0.55:
            op = ["send", rng.choice([None, 31, 32])]
        elif r < 0.9:
            op = ["throw", rng.choice(THROWS[:7])]
        else:
            op = ["close"]
        ops.append([op, random_call(rng) if probes and rng.random() < 0.3 else None])
    return ops


SEED_BODIES = [
    # generator-like: three oobs
    ["seq", ["oob", 0, 1], ["seq", ["oob", 0, 1], ["seq", ["oob", 0, 1], ["ret", 5]]]],
    # oob, real suspension, oob
    ["seq", ["oob", 0, 1], ["seq", ["tok", 1], ["seq", ["oob", 0, 1], ["tok", 1]]]],
    # oob inside a nested call inside try/finally
    ["fin", ["call", ["seq", ["tok", 1], ["seq", ["oob", 0, 1], ["ret", 6]]]], ["oob", 0, 1]],
    # athrow at the oob is handled and answered with another oob
    ["try", ["oob", 0, 1], ["E1", "GeneratorExit"], ["seq", ["oob", 0, 1], ["tok", 1]]],
    # oob on an idle monitor, caught
    ["seq", ["try", ["oob", 1, 1], ["RuntimeError"], ["log", 1]], ["oob", 0, 1]],
    # oob while being closed (designed RuntimeError)
    ["try", ["tok", 1], ["GeneratorExit"], ["oob", 0, 1]],
    # a sub-coroutine answers GeneratorExit with oob, the caller swallows the error and suspends
    ["seq", ["try", ["call", ["try", ["tok", 1], ["GeneratorExit"], ["oob", 0, 1]]],
             ["RuntimeError"], ["log", 1]], ["seq", ["tok", 1], ["oob", 0, 1]]],
    # StopIteration thrown at oob
    ["try", ["seq", ["oob", 0, 1], ["oob", 0, 1]], ["RuntimeError", "StopIteration"], ["oob", 0, 1]],
]


def gen_raw(rng, tier):
    quick = tier == "quick"
    # 1. every body with <= 2 nodes (3 thorough) x every history of 3 calls, one send per call
    small = []
    for n in range(1, 3 if quick else 4):
        small += [renumber(p, new_cnt()) for p in C.enum_progs(n, leaves=LEAVES, cls_sets=CLS_SETS)]
    small = [p for p in small if "oob" in repr(p)] + [p for p in small if "oob" not in repr(p)][:3]
    for p in small:
        for hist in itertools.product(CALLS_SMALL, repeat=3):
            yield {"prog": p, "nm": 2, "calls": [{"m": 0, "cl": list(cl), "b": 0, "probe": None,
                                                   "ops": [[["send", 31], None]]} for cl in hist]}
    # 2. every body with 3 nodes containing an oob x sampled histories with throws / close / probes
    three = [renumber(p, new_cnt()) for p in C.enum_progs(3, leaves=LEAVES, cls_sets=CLS_SETS)]
    three = [p for p in three if "oob" in repr(p)]
    seeds = [renumber(p, new_cnt()) for p in SEED_BODIES]
    for p in three + seeds * (6 if quick else 40):
        for _ in range(2 if quick else 8):
            calls = []
            for j in range(rng.choice([2, 3, 4])):
                calls.append({"m": 0, "cl": random_call(rng, first=(j == 0)), "b": rng.choice([0, 0, 1, 2]),
                              "probe": random_call(rng) if rng.random() < 0.3 else None,
                              "ops": random_rawops(rng, rng.choice([0, 1, 2]), True)})
            yield mark({"prog": p, "nm": 2, "calls": calls})
    # 3. bodies raising OOBData themselves: outside the property, model against code only
    for p in [["raise", ["OOBData", 1]], ["seq", ["tok", 11], ["raise", ["OOBData", 2]]],
              ["seq", ["oob", 0, 51], ["raise", ["OOBData", 3]]]]:
        for hist in itertools.product(CALLS_SMALL[1:], repeat=2):
            yield {"prog": p, "nm": 1, "corr_only": True,
                   "calls": [{"m": 0, "cl": list(cl), "b": 0, "probe": None,
                              "ops": [[["send", 31], None]]} for cl in hist]}
    # 4. random bodies, histories over two monitors
    for i in range(2200 if quick else 40000):
        nm = rng.choice([1, 2, 2, 3])
        p = random_body(rng, nm)
        calls = []
        for j in range(rng.choice([2, 3, 4, 6])):
            calls.append({"m": rng.randrange(nm) if rng.random() < 0.3 else 0,
                          "cl": random_call(rng, first=(j == 0)),
                          "b": rng.choice([0, 0, 1, 2]),
                          "probe": random_call(rng) if rng.random() < 0.25 else None,
                          "ops": random_rawops(rng, rng.choice([0, 1, 2, 3]), True)})
        yield mark({"prog": p, "nm": nm, "calls": calls})


def mark(case):
    """OOBData thrown in by the driver (= the body raising OOBData itself): outside the property"""
    if "OOBData" in repr(case.get("calls", "")) + repr(case.get("node", "")) + repr(case.get("ops", "")):
        case["corr_only"] = True
    return case


def random_items(rng, level, nm, n, cnt, depth):
    """script of a coroutine at depth `level` (0 = outermost): it drives its sub-coroutine
    through monitor `level` (mostly) and talks to the monitors above it"""
    items = []
    ncalls = 0
    for _ in range(n):
        r = rng.random()
        if r < 0.5:
            # own monitor, or (re-entrant use, refused) the monitor of an enclosing level
            m = level if rng.random() < 0.85 else rng.randrange(level + 1)
            items.append(["call", m, random_call(rng, first=(ncalls == 0)), rng.choice([0, 0, 1, 2])])
            ncalls += 1
        elif r < 0.75 and level > 0:
            cnt["oob"] += 1
            # only monitors this coroutine is (possibly) driven through, or spare ones that nobody
            # drives with (-> "Monitor not active"); calling oob() of a monitor that is in use
            # by somebody ELSE's suspended call is a misuse outside the property
            spare = list(range(depth, nm))
            m = rng.choice(spare) if spare and rng.random() < 0.15 else rng.randrange(level)
            items.append(["oob", m, 50 + cnt["oob"]])
        elif r < 0.9:
            cnt["tok"] += 1
            items.append(["tok", 10 + cnt["tok"]])
        else:
            cnt["log"] += 1
            items.append(["log", cnt["log"]])
    return items


def gen_like(level, k):
    """consumer of a generator-like sub-coroutine: start, then k sends, then close"""
    return ([["call", level, ["start"], 0]] + [["call", level, ["aawait", 71 + i], i % 3] for i in range(k)]
            + [["call", level, ["aclose"], 0]])


def gen_nest(rng, tier):
    quick = tier == "quick"
    # 1. seeds: A (monitor 0) outside, B (monitor 1) inside, the body talks to both
    body = ["seq", ["oob", 1, 51], ["seq", ["oob", 0, 52], ["seq", ["tok", 11],
            ["seq", ["oob", 1, 53], ["seq", ["oob", 0, 54], ["ret", 5]]]]]]
    mid = [["oob", 0, 55]] + gen_like(1, 4) + [["oob", 0, 56], ["tok", 12]]
    for mode in (0, 1, 2):
        for k in range(2, 9):
            for ans in ([31], [31, 32]):
                ops = [["send", None]] + [["send", a] for a in ans] * 3
                yield {"node": ["mid", gen_like(0, k), ["mid", mid, ["body", body]]], "nm": 2,
                       "mode": mode, "ops": ops}
    # the same monitor at two levels: the inner use is refused
    yield {"node": ["mid", gen_like(0, 3), ["mid", gen_like(0, 2), ["body", body]]], "nm": 2,
           "mode": 0, "ops": [["send", None], ["send", 31]]}
    # 2. random stacks of depth 2..3
    for i in range(2600 if quick else 40000):
        depth = rng.choice([1, 2, 2, 2, 3])
        nm = depth + rng.choice([0, 0, 1])
        cnt = new_cnt()
        p = C.random_prog(rng, rng.choice([3, 5, 7, 9]))
        p = renumber(with_oob(rng, p, min(nm, depth), 0.6), cnt)
        node = ["body", p]
        for level in reversed(range(depth)):
            node = ["mid", random_items(rng, level, nm, rng.choice([2, 3, 4, 6]), cnt, depth), node]
        mode = rng.choice([0, 0, 0, 1, 1, 2])
        if mode == 1:
            ops = [["send", None]] + [rng.choice([["send", None], ["send", 31], ["send", 32],
                                                  ["throw", ["E", 1]], ["throw", ["E", 2]],
                                                  ["throw", ["CancelledError"]]])
                                      for _ in range(rng.choice([1, 2, 3, 5]))]
        elif mode == 2:
            ops = []
        else:
            ops = C.random_ops(rng, rng.choice([1, 2, 3, 5]))
        yield mark({"node": node, "nm": nm, "mode": mode, "ops": ops})


# ----------------------------------------------------------------------------
# shrinking
# ----------------------------------------------------------------------------
def shrink_mprog(p):
    k = p[0]
    subs = {"call": [1], "seq": [1, 2], "fin": [1, 2], "try": [1, 3]}.get(k, [])
    for i in subs:
        yield p[i]
    for i in subs:
        for q in shrink_mprog(p[i]):
            r = list(p)
            r[i] = q
            yield r


def shrink_raw(case):
    calls = case["calls"]
    for i in range(len(calls) - 1, -1, -1):
        if len(calls) > 1:
            c = dict(case)
            c["calls"] = calls[:i] + calls[i + 1:]
            yield c
    for i, cc in enumerate(calls):
        for j in range(len(cc["ops"]) - 1, -1, -1):
            c = dict(case)
            c2 = dict(cc)
            c2["ops"] = cc["ops"][:j] + cc["ops"][j + 1:]
            c["calls"] = calls[:i] + [c2] + calls[i + 1:]
            yield c
        if cc.get("probe") or any(o[1] for o in cc["ops"]):
            c = dict(case)
            c2 = dict(cc)
            c2["probe"] = None
            c2["ops"] = [[o[0], None] for o in cc["ops"]]
            c["calls"] = calls[:i] + [c2] + calls[i + 1:]
            yield c
        if cc.get("b"):
            c = dict(case)
            c2 = dict(cc)
            c2["b"] = 0
            c["calls"] = calls[:i] + [c2] + calls[i + 1:]
            yield c
    for q in shrink_mprog(case["prog"]):
        c = dict(case)
        c["prog"] = q
        yield c


def shrink_node(n):
    if n[0] == "body":
        for q in shrink_mprog(n[1]):
            yield ["body", q]
        return
    items = n[1]
    for i in range(len(items) - 1, -1, -1):
        yield ["mid", items[:i] + items[i + 1:], n[2]]
    if n[2][0] == "mid":
        yield n[2]
    for q in shrink_node(n[2]):
        yield ["mid", items, q]


def shrink_nest(case):
    ops = case["ops"]
    for i in range(len(ops) - 1, 0, -1):
        c = dict(case)
        c["ops"] = ops[:i] + ops[i + 1:]
        yield c
    for q in shrink_node(case["node"]):
        if q[0] == "mid":
            c = dict(case)
            c["node"] = q
            yield c


def describe_raw(case):
    d = dict(case)
    d["source"] = render(case["prog"])
    return d


def signature(stream, case, msg):
    """one report per stream and kind of failure"""
    for frag, kind in (("re-entrant", "reentrant"), ("monitor states", "state"),
                       ("reference monitor", "reference"), ("without the re-entrant", "disturbed"),
                       ("oob", "oob-sequence"), ("OOBData", "oob-sequence")):
        if frag in msg:
            return f"C07-{stream}-{kind}"
    return f"C07-{stream}-other"


PROP = Prop(
    pid="C07",
    props_v="theories/Props/C07.v",
    theory_files=["theories/Coro/Monitor.v", "theories/Coro/MonitorSpec.v",
                  "theories/Coro/MonitorProofs.v", "theories/Coro/MonitorCorr.v"],
    streams=[
        Stream(name="raw", imports=IMPORTS, run="raw_run", input_type="mprog * nat * list rawcall",
               gen=gen_raw, impl=impl_raw, to_coq=coq_raw, oracle=oracle_raw,
               nontrivial=nontrivial_raw, shrink=shrink_raw, describe=describe_raw,
               corr_name="Monitor calls on one coroutine (Monitor.v call_run/call_resume)"),
        Stream(name="nest", imports=IMPORTS, run="nest_run",
               input_type="node * nat * Z * list dop", gen=gen_nest, impl=impl_nest,
               to_coq=coq_nest, oracle=oracle_nest, nontrivial=nontrivial_nest, shrink=shrink_nest,
               corr_name="nested monitors (Monitor.v call_k/script_k)"),
    ],
    rule="raw: every body with <= 2 nodes (thorough 3) over {log, await token, await M0.oob(d), return, "
         "raise E1, nested call, seq, try/except over 5 class sets, finally} x every history of 3 calls "
         "over {aawait(None), aawait(71), athrow(E1), aclose, start, try_await(72, 91)}; every 3-node "
         "body with an oob and 8 seed bodies x random histories (2..4 calls, plain / BoundMonitor / "
         "await BoundMonitor, raw operations send/throw over 7 exceptions/close, re-entrant probes); "
         "random bodies (3..12 nodes) over 1..3 monitors x histories of 1..6 calls.  nest: stacks of "
         "1..3 script coroutines over a random body, monitors 0..depth, driven raw / as a Task on a "
         "stepped real loop / by await_sync.  Non-trivial = at least one oob() was issued (raw: and at "
         "least two calls were made; nest: and some call result was logged)",
    signature=lambda stream, case, msg: signature(stream, case, msg),
    assumptions=["CPython 3.12 coroutine protocol as modelled by Coro/Tree.v + Native.v (validated by C02)",
                 "the body does not raise OOBData itself; an oob() issued while its frame is being "
                 "closed is outside the property (designed RuntimeError)",
                 "a coroutine is driven through one monitor at a time by one driver"],
)
