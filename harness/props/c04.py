"""C04 - A coroutine given a Context runs every one of its steps inside it.

Streams (one model run function, Coro/ContextCorr.v `c04_run`)
  cs     : cs = CoroStart(body, context=a) constructed in the caller's context,
           then phases: cs.throw(e, tries) / cs.close() / an awaitable derived
           from cs (__await__, athrow(e), aclose(), as_coroutine()) driven by
           send/throw/close until it ends.
  cawait : it = coro_await(body, context=a) driven by send/throw/close.
  eager  : coro_eager(body) called in the caller's context (the supplied context
           is the private copy_context()); if the body suspended, the returned
           as_coroutine() is driven the way the Task would drive it.
Every driver operation runs inside an explicit `caller` Context; a = None, a
pre-populated Context, or an EMPTY Context() (falsy!).

Observation per step: [log entries of the body, outcome, caller context
(len, var0, var1), [supplied context] or [], done(), start_result is None,
accesses ([0, x, value read] / [1, x, value written] with the variable's identity)].

Oracle (independent of the model): a shadow dictionary that starts as the content
of the context the body is supposed to run in and receives the body's writes.
Every read must return the shadow's value; with a context supplied the caller's
context must never change and the supplied context must equal the shadow after
every step; with context=None the caller's context must equal the shadow, and
(stream cawait) the whole trace must equal CPython's native `await body`.
"""
from __future__ import annotations

import asyncio
import contextvars
import itertools

from .. import coqlit as L
from .. import coro_lang as C
from .. import ctx_lang as X
from ..framework import Prop, Stream

IMPORTS = ["Coro.Tree", "Coro.Native", "Coro.Prog", "Coro.Relay", "Coro.Context", "Coro.ContextCorr"]
NVARS = 2
_LOOP = None


def _loop():
    global _LOOP
    if _LOOP is None:
        _LOOP = asyncio.new_event_loop()
    return _LOOP


# ----------------------------------------------------------------------------
# running the real code
# ----------------------------------------------------------------------------
def snap(ctx):
    return [len(ctx)] + [C.enc(ctx.get(C.CV[i])) for i in range(NVARS)]


def make_ctx(pairs):
    ctx = contextvars.Context()
    for x, v in pairs:
        ctx.run(C.CV[x].set, v)
    return ctx


def start_outcome(sr):
    if sr is None:
        return [2, [99, 0]]
    y, exc = sr
    if exc is None:
        return [0, C.enc(y)]
    if isinstance(exc, StopIteration):
        return [1, C.enc(exc.value)]
    return [2, C.exc_code(exc)]


def call_outcome(ctx, f, *args):
    """a plain call made in the caller's context -> outcome"""
    try:
        return [1, C.enc(ctx.run(f, *args))]
    except BaseException as e:
        return [2, C.exc_code(e)]


class Run:
    def __init__(self, case):
        self.case = case
        self.body = X.Body(case["prog"])
        self.caller = make_ctx(case["caller0"])
        self.x = make_ctx(case["sup0"]) if case["ctx"] in ("given", "empty") else None
        self.steps = []

    def step(self, out, done, srnone):
        self.steps.append([self.body.drain(), out, snap(self.caller),
                           [snap(self.x)] if self.x is not None else [],
                           1 if done else 0, 1 if srnone else 0, self.body.drain_acc()])

    def drive(self, it, ops, flags):
        """it.send(None), then ops, until the awaitable ends; True if it ended"""
        self.body.kept.append(it)
        out = None
        for op in [["send", None]] + ops:
            out = C.apply_op(it, op, self.caller)
            self.step(out, *flags())
            if out[0] != 0:
                break
        return out[0] != 0 and out != C.IGNORED_GENEXIT


def impl_cs(case):
    import asynkit
    with C.quiet():
        r = Run(case)
        try:
            cs = r.caller.run(lambda: asynkit.CoroStart(r.body.new(), context=r.x))
            flags = lambda: (cs.done(), cs.start_result is None)
            r.step(start_outcome(cs.start_result), *flags())
            for ph in case["phases"]:
                if ph[0] == "throw":
                    out = call_outcome(r.caller, cs.throw, C.make_exn(ph[1]), ph[2])
                    r.step(out, *flags())
                elif ph[0] == "close":
                    out = call_outcome(r.caller, cs.close)
                    r.step(out, *flags())
                    if out == C.IGNORED_GENEXIT:
                        break
                else:
                    m = ph[1]
                    if m[0] == "await":
                        it = cs.__await__()
                    elif m[0] == "athrow":
                        it = cs.athrow(C.make_exn(m[1]))
                    elif m[0] == "aclose":
                        it = cs.aclose()
                    else:
                        it = cs.as_coroutine()
                    if not r.drive(it, ph[2], flags):
                        break
            return r.steps
        finally:
            r.body.dispose()


def impl_cawait(case):
    import asynkit
    with C.quiet():
        r = Run(case)
        try:
            it = asynkit.coro_await(r.body.new(), context=r.x)
            r.drive(it, case["ops"], lambda: (False, True))
            return r.steps
        finally:
            r.body.dispose()


def impl_eager(case):
    import asynkit
    import asynkit.coroutine as AC
    with C.quiet():
        r = Run(case)
        orig = AC.copy_context
        box = []

        def recording_copy():
            c = orig()
            box.append(c)
            return c
        AC.copy_context = recording_copy
        asyncio.events._set_running_loop(_loop())
        try:
            try:
                res = r.caller.run(lambda: asynkit.coro_eager(r.body.new(), task_factory=lambda c: c))
            finally:
                asyncio.events._set_running_loop(None)
                AC.copy_context = orig
            r.x = box[0]
            if isinstance(res, asyncio.Future):
                exc = res.exception() if not res.cancelled() else asyncio.CancelledError()
                r.step([2, C.exc_code(exc)] if exc is not None else [1, C.enc(res.result())], True, False)
                return r.steps
            cs = res._cs if hasattr(res, "_cs") else res.cr_frame.f_locals["self"]
            flags = lambda: (cs.done(), cs.start_result is None)
            r.step(start_outcome(cs.start_result), *flags())
            r.drive(res, case["ops"], flags)
            return r.steps
        finally:
            r.body.dispose()


# ----------------------------------------------------------------------------
# Gallina
# ----------------------------------------------------------------------------
def coq_ctx(pairs):
    """newest binding first"""
    return L.lst([f"({L.z(x)}, {C.coq_val(v)})" for x, v in reversed(pairs)])


def coq_ctxarg(case):
    m = case["ctx"]
    if m == "none":
        return "CNone"
    if m == "eager":
        return "CEagerCopy"
    return f"(CGiven {coq_ctx(case['sup0'])})"


def coq_phase(ph):
    if ph[0] == "throw":
        return f"PThrow {C.coq_exn(ph[1])} {int(ph[2])}%nat"
    if ph[0] == "close":
        return "PClose"
    m = ph[1]
    mode = {"await": "MAwait", "aclose": "MAclose", "ascoro": "MAsCoro"}.get(m[0])
    if mode is None:
        mode = f"(MAthrow {C.coq_exn(m[1])})"
    return f"PAwaitable {mode} {C.coq_ops(ph[2])}"


def to_coq(case):
    if "phases" in case:
        sc = f"(SCoroStart {L.lst([coq_phase(p) for p in case['phases']])})"
    elif case["ctx"] == "eager":
        sc = f"(SEager {C.coq_ops(case['ops'])})"
    else:
        sc = f"(SCoroAwait {C.coq_ops(case['ops'])})"
    return f"({C.coq_prog(case['prog'])}, {coq_ctxarg(case)}, {coq_ctx(case['caller0'])}, {sc})"


# ----------------------------------------------------------------------------
# oracle
# ----------------------------------------------------------------------------
def snap_of(d):
    return [len(d)] + [C.enc(d.get(i)) for i in range(NVARS)]


def oracle(case, ob):
    if not isinstance(ob, list) or not ob or (ob and ob[0] == -999):
        return f"runner failed: {ob!r}"[:200]
    mode = case["ctx"]
    caller0 = dict(case["caller0"])
    own = mode != "none"
    shadow = dict(case["sup0"]) if mode in ("given", "empty") else dict(caller0)
    what = {"given": "context=<Context>", "empty": "context=<empty Context()>", "none": "context=None",
            "eager": "eager (copy_context())"}[mode]
    for i, st in enumerate(ob):
        events, out, caller, sup, _done, _none, acc = st
        for a in acc:
            kind, x, v = a
            if kind == 1:
                shadow[x] = None if v == [] else v
            else:
                mine = C.enc(shadow.get(x))
                if v != mine:
                    return (f"{what}: step {i}: the body read ContextVar {x} = {v} but its own context "
                            f"holds {mine} (caller's context: {snap_of(caller0)})")
        if own:
            if caller != snap_of(caller0):
                return (f"{what}: after step {i} the caller's context is {caller}, it was {snap_of(caller0)}: "
                        f"a write of the body became visible in the caller's context")
            if sup != [snap_of(shadow)]:
                return (f"{what}: after step {i} the supplied context is {sup} but the body's writes "
                        f"so far give {snap_of(shadow)}")
        else:
            if caller != snap_of(shadow):
                return (f"{what}: after step {i} the caller's context is {caller} but the body's writes "
                        f"(shared context) give {snap_of(shadow)}")
    if mode == "none" and "ops" in case:
        return native_compare(case, ob)
    return None


def native_compare(case, ob):
    """context=None: coro_await(body) == CPython's `await body` in the caller's context"""
    with C.quiet():
        b = X.Body(case["prog"])
        try:
            caller = make_ctx(case["caller0"])
            r = C.lift(b.new())
            b.kept.append(r)
            ref = []
            for op in [["send", None]] + case["ops"]:
                out = C.apply_op(r, op, caller)
                ref.append([b.drain(), out, snap(caller)])
                if out[0] != 0:
                    break
        finally:
            b.dispose()
    cut = C.cut_at_ignored(ref)
    n = len(ref) if cut is None else cut
    got = [s[:3] for s in ob]
    for i in range(n):
        if i >= len(got) or got[i] != ref[i]:
            return (f"context=None: step {i} is {got[i] if i < len(got) else None} but a native await "
                    f"gives {ref[i]}")
    if cut is None and len(got) != len(ref):
        return f"context=None: {len(got)} steps but a native await has {len(ref)}"
    return None


# ----------------------------------------------------------------------------
# generators
# ----------------------------------------------------------------------------
E1, GE, CANC = ["E", 1], ["GeneratorExit"], ["CancelledError"]
S7, TE1, TGE, CL = ["send", 7], ["throw", E1], ["throw", GE], ["close"]
OPSEQS = [[], [S7], [TE1], [TGE], [CL], [S7, S7], [S7, TE1], [S7, TGE], [S7, CL], [TE1, S7], [TE1, CL],
          [TE1, TGE]]
MODES = [["await"], ["athrow", E1], ["athrow", GE], ["aclose"], ["ascoro"]]
SYNC = [["throw", E1, 1], ["throw", E1, 2], ["throw", GE, 1], ["close"]]
AFTER = [["throw", E1, 1], ["close"], ["aw", ["await"], []], ["aw", ["aclose"], []]]

CTXS = [
    {"ctx": "given", "caller0": [[0, 100]], "sup0": [[0, 200], [1, 201]]},
    {"ctx": "empty", "caller0": [[0, 100]], "sup0": []},
    {"ctx": "none", "caller0": [[0, 100]], "sup0": []},
]
CTXS_MORE = [
    {"ctx": "given", "caller0": [], "sup0": [[1, 201]]},
    {"ctx": "empty", "caller0": [], "sup0": []},
    {"ctx": "none", "caller0": [], "sup0": []},
    {"ctx": "given", "caller0": [[0, 100], [1, 101]], "sup0": [[0, 200]]},
]
EAGER_CTXS = [
    {"ctx": "eager", "caller0": [], "sup0": []},                 # called from an empty context
    {"ctx": "eager", "caller0": [[0, 100]], "sup0": []},
    {"ctx": "eager", "caller0": [[0, 100], [1, 101]], "sup0": []},
]


def scripts(full):
    """phase lists: a sync operation then anything; an awaitable then something on the finished
    object; two sync operations then an awaitable"""
    aws = [["aw", m, ops] for m in MODES for ops in (OPSEQS if full else OPSEQS[:6])]
    for a in aws:
        yield [a]
    for s in SYNC:
        yield [s]
        for a in aws:
            yield [s, a]
        for s2 in SYNC:
            yield [s, s2]
            if full:
                yield [s, s2, ["aw", ["await"], [S7, S7]]]
                yield [s, s2, ["aw", ["aclose"], [S7]]]
    if full:
        for a in aws[::3]:
            for t in AFTER:
                yield [a, t]


def with_ctx(c, **kw):
    d = dict(c)
    d.update(kw)
    return d


def gen_cs(rng, tier):
    quick = tier == "quick"
    full = list(scripts(True))
    small = list(scripts(False))
    for p in X.SEEDS:
        for k, c in enumerate(CTXS):
            for ph in (full if (k == 0 or not quick) else full[::2] if k == 1 else small):
                yield with_ctx(c, prog=p, phases=ph)
    for p in X.SEEDS[:4] if quick else X.SEEDS:
        for c in CTXS_MORE:
            for ph in (small[::2] if quick else small):
                yield with_ctx(c, prog=p, phases=ph)
    progs = [p for n in range(1, 4 if quick else 5) for p in X.enum_small(n)]
    progs = [p for p in progs if "var" in repr(p)]
    few = [[["aw", m, ops]] for m in MODES for ops in ([S7], [TE1], [TGE], [CL])] + [[s] for s in SYNC] \
        + [[SYNC[0], ["aw", ["await"], [S7]]], [SYNC[1], ["aw", ["aclose"], [S7]]]]
    for k, p in enumerate(progs):
        for c in CTXS:
            for ph in (few if (not quick or k % 4 == 0) else few[k % 5::5]):
                yield with_ctx(c, prog=p, phases=ph)
    allctx = CTXS + CTXS_MORE
    for i in range(1000 if quick else 30000):
        p = X.canon(X.random_prog(rng, rng.choice([4, 6, 8, 11, 14]), in_handler=(i % 7 == 3)))
        yield with_ctx(rng.choice(allctx), prog=p, phases=random_phases(rng))


def random_exn(rng):
    return rng.choice([E1, E1, GE, CANC, ["E", 2], ["BaseE", 1], ["StopIteration", 3]])


def random_phases(rng):
    phs = []
    for _ in range(rng.choice([1, 1, 2, 2, 3, 4])):
        r = rng.random()
        if r < 0.25:
            phs.append(["throw", random_exn(rng), rng.choice([1, 1, 2, 3, 0])])
        elif r < 0.38:
            phs.append(["close"])
        else:
            m = rng.choice([["await"], ["athrow", random_exn(rng)], ["aclose"], ["ascoro"]])
            phs.append(["aw", m, C.random_ops(rng, rng.choice([0, 1, 2, 3, 5]), start=False)])
    return phs


def gen_cawait(rng, tier):
    quick = tier == "quick"
    alphabet = [S7, TE1, TGE, CL]
    for p in X.SEEDS:
        for c in CTXS + CTXS_MORE:
            for n in range(0, 3 if quick else 4):
                for ops in itertools.product(alphabet, repeat=n):
                    yield with_ctx(c, prog=p, ops=[list(o) for o in ops])
    progs = [p for n in range(1, 4 if quick else 5) for p in X.enum_small(n) if "var" in repr(p)]
    for k, p in enumerate(progs):
        for c in CTXS:
            for ops in ([[S7], [TE1], [TGE], [CL]] if (not quick or k % 2 == 0) else [[S7, TGE]]):
                yield with_ctx(c, prog=p, ops=ops)
    allctx = CTXS + CTXS_MORE
    for i in range(700 if quick else 15000):
        p = X.canon(X.random_prog(rng, rng.choice([4, 6, 8, 11, 14]), in_handler=(i % 7 == 3)))
        yield with_ctx(rng.choice(allctx), prog=p,
                       ops=C.random_ops(rng, rng.choice([1, 2, 3, 5, 7]), start=False))


def gen_eager(rng, tier):
    quick = tier == "quick"
    alphabet = [S7, TE1, TGE, CL]
    for p in X.SEEDS:
        for c in EAGER_CTXS:
            for n in range(0, 3 if quick else 4):
                for ops in itertools.product(alphabet, repeat=n):
                    yield with_ctx(c, prog=p, ops=[list(o) for o in ops])
    progs = [p for n in range(1, 4 if quick else 5) for p in X.enum_small(n) if "var" in repr(p)]
    for k, p in enumerate(progs):
        for c in EAGER_CTXS[:2]:
            for ops in ([[S7], [TGE]] if (not quick or k % 2 == 0) else [[TE1, CL]]):
                yield with_ctx(c, prog=p, ops=ops)
    for i in range(500 if quick else 10000):
        p = X.canon(X.random_prog(rng, rng.choice([4, 6, 8, 11, 14]), in_handler=(i % 7 == 3)))
        yield with_ctx(rng.choice(EAGER_CTXS), prog=p,
                       ops=C.random_ops(rng, rng.choice([1, 2, 3, 5, 7]), start=False))


def impl_any(case):
    if "phases" in case:
        return impl_cs(case)
    return impl_eager(case) if case["ctx"] == "eager" else impl_cawait(case)


def gen_f3(rng, tier):
    """one small case per path of finding F3 (each gets its own report on an unrepaired tree)"""
    p = X.SEEDS[0]
    given, empty = CTXS[0], CTXS[1]
    for ph in ([["close"]], [["throw", E1, 1]], [["throw", GE, 2]],
               [["aw", ["await"], [TGE]]], [["aw", ["await"], [CL]]], [["aw", ["ascoro"], [CL]]],
               [["aw", ["aclose"], []]], [["aw", ["athrow", E1], []]], [["aw", ["await"], [TE1]]],
               [["aw", ["await"], [S7]]]):
        yield with_ctx(given, prog=p, phases=ph)
    yield with_ctx(empty, prog=p, phases=[["aw", ["await"], [S7]]])
    yield with_ctx(empty, prog=p, phases=[["aw", ["athrow", E1], []]])
    yield with_ctx(empty, prog=p, ops=[S7])
    yield with_ctx(given, prog=p, ops=[TGE])
    yield with_ctx(EAGER_CTXS[0], prog=p, ops=[S7])
    yield with_ctx(EAGER_CTXS[1], prog=p, ops=[CL])


def nontrivial(case, ob):
    """the body touched a ContextVar in at least two different steps (segments)"""
    try:
        return sum(1 for st in ob if st[6]) >= 2
    except Exception:
        return False


# ----------------------------------------------------------------------------
# shrinking / reporting
# ----------------------------------------------------------------------------
def shrink_prog(p):
    k = p[0]
    subs = {"call": [1], "seq": [1, 2], "fin": [1, 2], "try": [1, 3]}.get(k, [])
    for i in subs:
        yield p[i]
    for i in subs:
        for q in shrink_prog(p[i]):
            r = list(p); r[i] = q
            yield r


def shrink(case):
    if "phases" in case:
        phs = case["phases"]
        for i in range(len(phs) - 1, -1, -1):
            c = dict(case); c["phases"] = phs[:i] + phs[i + 1:]
            yield c
        for i, ph in enumerate(phs):
            if ph[0] == "aw":
                for j in range(len(ph[2]) - 1, -1, -1):
                    c = dict(case)
                    c["phases"] = phs[:i] + [["aw", ph[1], ph[2][:j] + ph[2][j + 1:]]] + phs[i + 1:]
                    yield c
            if ph[0] == "throw" and ph[2] > 1:
                c = dict(case); c["phases"] = phs[:i] + [["throw", ph[1], 1]] + phs[i + 1:]
                yield c
    else:
        ops = case["ops"]
        for i in range(len(ops) - 1, -1, -1):
            c = dict(case); c["ops"] = ops[:i] + ops[i + 1:]
            yield c
    for q in shrink_prog(case["prog"]):
        c = dict(case); c["prog"] = q
        yield c


def first_resumer(case, msg):
    """which operation made the step the oracle complains about (for the signature)"""
    import re
    m = re.search(r"step (\d+)", msg)
    return m.group(1) if m else "?"


def signature(stream, case, msg):
    if stream == "f3":
        ph = case["phases"][0] if "phases" in case else ["coro_await" if case["ctx"] != "eager" else "eager"]
        path = "-".join(str(x) for x in (ph[:1] + (ph[1][:1] + [o[0] + (o[1][0] if o[0] == "throw" else "") for o in ph[2]]
                                           if ph[0] == "aw" else [])))
        return f"F3-{case['ctx']}-{path}"
    kind = ("read" if "body read" in msg else "caller" if "caller's context is" in msg
            else "supplied" if "supplied context is" in msg else "other")
    return f"C04-{stream}-{case['ctx']}-{kind}"


def describe(case):
    d = dict(case)
    d["source"] = X.render(case["prog"])
    return d


INPUT = "prog * ctxarg * ctx * scen"


def _stream(name, gen, impl, corr):
    return Stream(name=name, imports=IMPORTS, run="c04_run", input_type=INPUT, gen=gen, impl=impl,
                  to_coq=to_coq, oracle=oracle, nontrivial=nontrivial, shrink=shrink, describe=describe,
                  corr_name=corr)


PROP = Prop(
    pid="C04",
    props_v="theories/Props/C04.v",
    theory_files=["theories/Coro/Tree.v", "theories/Coro/Native.v", "theories/Coro/Prog.v",
                  "theories/Coro/TreeProofs.v", "theories/Coro/Relay.v", "theories/Coro/RelayProofs.v",
                  "theories/Coro/Context.v", "theories/Coro/ContextProofs.v", "theories/Coro/ContextProgProofs.v",
                  "theories/Coro/ContextCorr.v"],
    streams=[
        _stream("f3", gen_f3, impl_any, "paths of finding F3 (Context.v)"),
        _stream("cs", gen_cs, impl_cs, "CoroStart with context= (Context.v run_corostart)"),
        _stream("cawait", gen_cawait, impl_cawait, "coro_await(context=) (Context.v run_coro_await)"),
        _stream("eager", gen_eager, impl_eager, "coro_eager private copy (Context.v run_eager)"),
    ],
    rule="bodies: 10 seed bodies and every body of <= 3 nodes (thorough: 4) over {await token, set var, "
         "read var, seq, try/except over 3 class sets, finally, nested call} plus random bodies of 4..14 "
         "nodes over 2 ContextVars (every write a distinct value); context argument in {populated Context, "
         "EMPTY Context(), None} x caller context {empty, populated} (eager: copy of an empty / populated "
         "caller context); cs: phase lists over cs.throw(e, tries) / cs.close() / awaitable in {__await__, "
         "athrow(E1|GeneratorExit), aclose, as_coroutine} x 12 driver sequences over {send 7, throw E1, throw "
         "GeneratorExit, close}; cawait / eager: every driver sequence of <= 2 (3) operations. "
         "Non-trivial = the body read or wrote a ContextVar in at least two different steps",
    signature=signature,
    assumptions=["CPython 3.12 coroutine protocol as in Coro/Tree.v + Native.v (validated by ./check C02, stream native)",
                 "contextvars: Context = finite map, Context.run swaps the current context for the call, "
                 "an empty Context is falsy (modelled in Coro/Context.v, compared with CPython on every run)",
                 "one awaitable of a CoroStart at a time, each driven until it ends; nothing after "
                 "'coroutine ignored GeneratorExit'; no ContextVar.reset()"],
)
