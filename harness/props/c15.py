"""C15 - Interrupts reach their target exactly once, immediately, and only it."""
from __future__ import annotations

import random

from .. import sched_gen as G
from ..framework import Prop
from ..sched_props import (READY, FUTS, TASKS, LOCKS, LOG, ERRS, make_stream, ok_obs, enum_env, ready_handles)

EXCS = (["interrupt", 1], ["interrupt", 2], ["user", 1], ["base", 1], ["cancelled"])


def code(e):
    k = e[0]
    return {"cancelled": 901, "interrupt": 910 + (e[1] if len(e) > 1 else 0), "user": 950 + (e[1] if len(e) > 1 else 0),
            "base": 960 + (e[1] if len(e) > 1 else 0)}[k]


def is_cancel(e):
    return e[0] in ("cancelled", "interrupt")


def guarded(op, tag):
    """try: <op>; log ok  except BaseException: logexc   (the handler swallows)"""
    return ["try", ["do", op, ["do", ["log", 100 + tag], ["end"]]], "base", ["logexc", ["end"]], ["end"], ["end"]]


def chain(*scripts):
    """sequence of scripts (each ending in ["end"])"""
    def subst(s, rest):
        k = s[0]
        if k == "end":
            return rest
        if k == "do":
            return ["do", s[1], subst(s[2], rest)]
        if k == "try":
            return s[:5] + [subst(s[5], rest)]
        if k == "logexc":
            return ["logexc", subst(s[1], rest)]
        return s
    out = ["end"]
    for s in reversed(scripts):
        out = subst(s, out)
    return out


BLOCKERS = (["sleep0"], ["eventwait", 0], ["awaitfut", 0], ["sleep", [5, 1]])


def worker(rng, idx, nworkers, interrupter=False, table=None):
    parts = [["do", ["log", 1000 + idx], ["end"]]]
    for j in range(rng.randint(1, 3)):
        r = rng.random()
        if interrupter and r < 0.5:
            tgt = rng.choice([t for t in range(nworkers) if t != idx])
            e = list(rng.choice(EXCS))
            n = idx * 10 + j
            if table is not None:
                table[str(n)] = [tgt, e]
            # PRE / interrupt / POST : POST is only logged when the interrupt was accepted;
            # a refusal (RuntimeError) logs 9000+n; anything else arriving here is logged by logexc
            inner = ["try", ["do", ["log", 7000 + n], ["do", ["interrupt", tgt, e], ["do", ["log", 8000 + n], ["end"]]]],
                     "exception", ["do", ["log", 9000 + n], ["end"]], ["end"], ["end"]]
            parts.append(["try", inner, "base", ["logexc", ["end"]], ["end"], ["end"]])
        elif r < 0.75:
            parts.append(guarded(list(rng.choice(BLOCKERS)), idx * 10 + j))
        else:
            l = rng.randrange(2)
            parts.append(["try", ["do", ["acquire", l], ["try", ["do", ["sleep0"], ["do", ["log", 100 + idx * 10 + j], ["end"]]],
                                                       "never", ["end"], ["do", ["release", l], ["end"]], ["end"]]],
                          "base", ["logexc", ["end"]], ["end"], ["end"]])
    return chain(*parts)


def gen_random(rng):
    nw = rng.randint(2, 4)
    loop = rng.choice(["stock", "sched", "prio"])
    acts = [["do", ["newfut"]]]
    table = {}
    for i in range(nw):
        acts.append(["spawn", ["py"], worker(rng, i, nw, interrupter=rng.random() < 0.5, table=table)])
    for _ in range(rng.randint(6, 30)):
        r = rng.random()
        if r < 0.55:
            acts.append(["step"])
        elif r < 0.70:
            acts.append(["do", ["throw", rng.randrange(nw), list(rng.choice(EXCS))]])
        elif r < 0.78:
            acts.append(["do", ["cancel", rng.randrange(nw)]])
        elif r < 0.86:
            acts.append(["do", ["eventset", 0]])
        elif r < 0.93:
            acts.append(["do", ["setresult", 0, 1]])
        else:
            acts.append(["advance", [5, 1]]); acts.append(["begin"])
    acts += [["step"]] * 14
    return {"loop": loop, "locks": ["plain", "prio"], "conds": [], "events": 1, "acts": acts, "nworkers": nw,
            "interrupts": table}


def exhaustive_cases(tier):
    depth = 3
    w0 = chain(["do", ["log", 1000], ["end"]], guarded(["eventwait", 0], 0), guarded(["sleep0"], 1))
    w1 = chain(["do", ["log", 1001], ["end"]], guarded(["awaitfut", 0], 10), guarded(["sleep0"], 11))
    w2 = chain(["do", ["log", 1002], ["end"]], guarded(["sleep0"], 20), guarded(["awaitfut", 0], 21))
    alphabet = [["step"], ["do", ["throw", 0, ["interrupt", 1]]], ["do", ["throw", 0, ["user", 1]]],
                ["do", ["throw", 1, ["interrupt", 2]]], ["do", ["throw", 2, ["base", 1]]], ["do", ["cancel", 0]],
                ["do", ["cancel", 1]], ["do", ["eventset", 0]], ["do", ["setresult", 0, 3]]]
    for loop in ("stock", "prio"):
        for started in (0, 2, 3):
            base = [["do", ["newfut"]], ["spawn", ["py"], w0], ["spawn", ["py"], w1], ["spawn", ["py"], w2]] + [["step"]] * started
            for env in enum_env(alphabet, depth):
                if tier == "quick" and len(env) == depth and started == 2:
                    continue
                yield {"loop": loop, "locks": [], "conds": [], "events": 1, "nworkers": 3,
                       "acts": base + [list(a) for a in env] + [["step"]] * 8}


def gen(rng, tier):
    yield from exhaustive_cases(tier)
    for _ in range(300 if tier == "quick" else 3000):
        yield gen_random(rng)


def oracle(case, ob):
    if not ok_obs(case, ob):
        return f"runner failed: {ob!r}"[:200]
    acts = case["acts"]
    pending = {}          # task -> expected exception code at its next resumption
    cancelled_after = {}  # task -> cancel() was called after the pending throw
    cancel_req = set()    # tasks with a cancellation request not yet delivered
    started = set()
    prevlog = 0
    for k, st in enumerate(ob):
        a = acts[k]
        where = f"after action {k} {a if a[0] != 'spawn' else 'spawn'}"
        before = ob[k - 1] if k else None
        if st[ERRS]:
            return f"{where}: the event loop's exception handler was called ({st[ERRS]})"
        newlog = st[LOG][prevlog:]
        prevlog = len(st[LOG])
        if a[0] == "do" and a[1][0] == "cancel" and before is not None:
            t = a[1][1]
            if t < len(before[TASKS]) and not before[TASKS][t][0]:
                if t in pending:
                    cancelled_after[t] = True
                cancel_req.add(t)
        if a[0] == "do" and a[1][0] == "throw" and before is not None:
            t, e = a[1][1], a[1][2]
            tk = before[TASKS][t]
            handles_b = [h for h in ready_handles(before) if h[2] == t and not h[1]]
            refusable = tk[0] or tk[2] or (tk[1] != -1 and before[FUTS][tk[1]][0][0] == 3)
            # everything but the ready queue's internal bookkeeping
            same = st[1:] == before[1:] and st[READY][:2] == before[READY][:2]
            if same:
                if not refusable:
                    return f"{where}: task_throw refused (nothing changed) but task {t} was interruptible: {tk}"
            else:
                if refusable:
                    return f"{where}: task_throw on a done/cancel-pending task {t} changed the state"
                ta = st[TASKS][t]
                live = [h for h in ready_handles(st) if h[2] == t and not h[1]]
                if len(live) != 1:
                    return f"{where}: after task_throw task {t} has {len(live)} handles in the ready queue"
                if ta[1] != -1:
                    return f"{where}: after task_throw task {t} still waits on future {ta[1]}"
                for fi, (fb, fa) in enumerate(zip(before[FUTS], st[FUTS])):
                    if fb[0] != fa[0]:
                        return f"{where}: task_throw changed the state of future {fi} ({fb[0]} -> {fa[0]})"
                    exp = fb[1] - 1 if (tk[1] == fi and fb[0][0] == 0) else fb[1]
                    if fa[1] != exp:
                        return f"{where}: task_throw changed the callbacks of future {fi}: {fb[1]} -> {fa[1]}, expected {exp}"
                for ti, (tb, tn) in enumerate(zip(before[TASKS], st[TASKS])):
                    if ti != t and tb != tn:
                        return f"{where}: task_throw on {t} changed task {ti}"
                if st[LOCKS] != before[LOCKS] or st[LOG] != before[LOG]:
                    return f"{where}: task_throw changed locks or produced log entries"
                pending[t] = code(e)
                cancelled_after.pop(t, None)
                if is_cancel(e):
                    pass
        if a[0] == "step" and before is not None:
            hb = ready_handles(before)
            if hb and not hb[0][1] and hb[0][2] >= 0:
                t = hb[0][2]
                mine = [c for w, c in newlog if w == t + 1]
                was_started = t in started
                if 1000 + t in mine:
                    started.add(t)
                # interrupts issued by this task during this step
                issued = []
                for c in mine:
                    if 7000 <= c < 8000 and (c + 2000) not in mine:
                        ent = case.get("interrupts", {}).get(str(c - 7000))
                        if ent:
                            issued.append(ent)
                # an interrupt issued and refused (RuntimeError) within this very step: the refusal is only
                # legitimate for a target that is done, has a cancellation pending, or is the caller itself
                for c in mine:
                    if 7000 <= c < 8000 and (c + 2000) in mine:
                        ent = case.get("interrupts", {}).get(str(c - 7000))
                        if ent and ent[0] != t and ent[0] < len(before[TASKS]):
                            tkb = before[TASKS][ent[0]]
                            refusable = tkb[0] or tkb[2] or (tkb[1] != -1 and before[FUTS][tkb[1]][0][0] == 3)
                            if not refusable and ent[0] not in pending:
                                return (f"{where}: task_interrupt({ent[0]}) by task {t} was refused although the target "
                                        f"is an unfinished Python task with no cancellation pending: {tkb}")
                excs = [c for c in mine if 900 <= c < 1000]
                if t in pending:
                    exp = pending.pop(t)
                    if cancelled_after.pop(t, False) and not (901 <= exp < 950):
                        exp = 901
                    cancel_req.discard(t)
                    if was_started:
                        caught_by_exception_clause = 950 <= exp < 960 and any(9000 <= c < 10000 for c in mine)
                        if (not excs or excs[0] != exp) and not caught_by_exception_clause:
                            return (f"{where}: task {t} resumed after task_throw; expected exception code {exp} "
                                    f"at its suspension point, its log shows {mine}")
                    else:
                        # never started: the exception ends the task without running its body
                        if not st[TASKS][t][0]:
                            return f"{where}: never-started task {t} survived the thrown exception"
                        if mine:
                            return f"{where}: never-started task {t} ran body code {mine} although an exception was thrown"
                elif t in cancel_req:
                    cancel_req.discard(t)
                else:
                    bad = [c for c in excs if 910 <= c < 980]
                    if bad:
                        return f"{where}: task {t} received {bad} although no interrupt was pending for it"
                for tgt, e in issued:
                    pending[tgt] = code(e)
                    cancelled_after.pop(tgt, None)
                    ha = ready_handles(st)
                    if not ha or ha[0][2] != tgt:
                        return f"{where}: after task_interrupt({tgt}) by task {t} the next handle is not the target's: {ha[:2]}"
    # task_interrupt: between PRE and POST of the interrupter only the target may run
    log = ob[-1][LOG] if ob else []
    for j, (w, c) in enumerate(log):
        if 8000 <= c < 9000:
            pre = [i for i, (w2, c2) in enumerate(log[:j]) if w2 == w and c2 == c - 1000]
            if not pre:
                continue
            between = [w2 for w2, c2 in log[pre[-1] + 1:j] if w2 != 0]
            ent = case.get("interrupts", {}).get(str(c - 8000))
            # superseded by a later throw at the same target (from the environment or another worker)?
            tbl = case.get("interrupts", {})
            rivals = [c2 for w2, c2 in log[pre[-1] + 1:j]
                      if 7000 <= c2 < 8000 and tbl.get(str(c2 - 7000), [None])[0] == (ent[0] if ent else None)]
            env_throw = any(a[0] == "do" and a[1][0] in ("throw", "cancel") and ent and a[1][1] == ent[0] for a in acts)
            if rivals or env_throw:
                continue
            if ent and between and (ent[0] + 1) in between and between[0] != ent[0] + 1:
                return f"task_interrupt({ent[0]}) by task {w - 1}: task {between[0] - 1} ran before the target"
    return None


PROP = Prop(
    pid="C15",
    props_v="theories/Props/C15.v",
    theory_files=["theories/Sched/Model.v", "theories/Sched/Corr.v", "theories/Sched/PartTables.v", "theories/Sched/PartitionProofs.v", "theories/Sched/PartitionSteps.v", "theories/Sched/PartitionRun.v", "theories/Sched/PartitionFinal.v", "theories/Sched/ThrowProofs.v"],
    streams=[make_stream("interrupts", gen, oracle)],
    rule="bounded-exhaustive environment sequences over {step, task_throw (cancel-derived and other exception "
         "classes), cancel, set event, resolve future} against three Python tasks (never started / blocked on an "
         "event / on a shared future / woken but not yet run), plus random programs with workers interrupting one "
         "another (task_interrupt) and lock sections, on three loops; non-trivial: >=4 actions of >=3 kinds",
    assumptions=["Task.cancel() after task_throw counts as 'a later throw' (DESIGN C15)",
                 "only Python tasks (create_pytask) are interrupted, as the property quantifies"],
)
