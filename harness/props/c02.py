"""C02 - Coroutine wrappers are transparent to the await protocol.

Streams
  native : a generated body driven directly as a coroutine object (CPython only):
           validates Coro/Tree.v, Native.v and Prog.denote against CPython.
           Oracle: driving the body directly == driving `await body` (up to the
           first 'coroutine ignored GeneratorExit').
  wrap   : the body behind a stack (depth 1..3) of the real asynkit wrappers;
           the outermost wrapper's __await__() iterator is driven by
           send/throw/close until the await is over.
           Oracle: trace == trace of CPython's native `await body` on the same
           operations, and the body coroutine is left in the same state.
  cs     : CoroStart(body) then `await cs.athrow(e)` / `await cs.aclose()` /
           plain await, then a second awaitable after the first ended.
           Oracle: native coroutine started with send(None), then throw(e).
"""
from __future__ import annotations

import itertools
import random

from .. import coqlit as L
from .. import coro_lang as C
from ..framework import Prop, Stream

CORO_IMPORTS = ["Coro.Tree", "Coro.Native", "Coro.Prog", "Coro.Relay", "Coro.RelayCorr"]
WRAPPERS = ["CoroStart", "AsCoroutine", "CoroAwait", "CoroIter", "AwaitMethod", "AwaitMethodIter",
            "Monitor", "BoundMonitor", "Native"]
GIVES_COROUTINE = {"AsCoroutine", "CoroAwait", "Monitor", "Native"}
EAGER = {"CoroStart", "AsCoroutine"}


# ----------------------------------------------------------------------------
# building the real wrappers
# ----------------------------------------------------------------------------
class _Holder:
    """an object whose __await__ is made by asynkit.awaitmethod / awaitmethod_iter"""


def _holder_classes():
    import asynkit

    def get(self):
        return self.c

    class AM(_Holder):
        def __init__(self, c):
            self.c = c
        __await__ = asynkit.awaitmethod(get)

    class AMI(_Holder):
        def __init__(self, c):
            self.c = c
        __await__ = asynkit.awaitmethod_iter(get)

    class CI(_Holder):
        def __init__(self, c):
            self.c = c

        def __await__(self):
            return asynkit.coro_iter(self.c)

    return AM, AMI, CI


_HC = None


def build(w, coro, info):
    """wrap a coroutine object with the real asynkit wrapper -> awaitable"""
    import asynkit
    global _HC
    if _HC is None:
        _HC = _holder_classes()
    AM, AMI, CI = _HC
    if w == "CoroStart":
        cs = asynkit.CoroStart(coro)
        info.setdefault("cs", cs)
        return cs
    if w == "AsCoroutine":
        cs = asynkit.CoroStart(coro)
        info.setdefault("cs", cs)
        return cs.as_coroutine()
    if w == "CoroAwait":
        return asynkit.coro_await(coro)
    if w == "CoroIter":
        return CI(coro)
    if w == "AwaitMethod":
        return AM(coro)
    if w == "AwaitMethodIter":
        return AMI(coro)
    if w == "Monitor":
        m = asynkit.Monitor()
        info.setdefault("monitor", m)
        return m.aawait(coro)
    if w == "BoundMonitor":
        m = asynkit.Monitor()
        info.setdefault("monitor", m)
        return m(coro)
    if w == "Native":
        return C.lift(coro)
    raise KeyError(w)


def build_stack(ws, body: C.Body):
    """ws outermost first.  Returns (iterator of the outermost wrapper, body coroutine, info
    about the outermost wrapper's own objects)."""
    inner = body.new()
    x = inner
    info = {}
    for i, w in reversed(list(enumerate(ws))):
        winfo = info if i == 0 else {}
        aw = build(w, x, winfo)
        if i == 0:
            it = aw.__await__()
            body.kept.append(it)
            return it, inner, info
        x = aw if w in GIVES_COROUTINE else C.lift(aw)
        body.kept.append(x)
    raise ValueError("empty stack")


def aux_of(w, info):
    if w in ("Monitor", "BoundMonitor"):
        return info["monitor"].state
    if w in ("CoroStart", "AsCoroutine"):
        return 1 if info["cs"].start_result is None else 0
    return 0


# ----------------------------------------------------------------------------
# stream `native`
# ----------------------------------------------------------------------------
def impl_native(case):
    with C.quiet():
        b = C.Body(case["prog"])
        try:
            c = b.new()
            import contextvars
            ctx = contextvars.Context()
            return C.drive(c, case["ops"], b, stop_at_end=False, ctx=ctx,
                           after_step=lambda out: [C.coro_state(c)])
        finally:
            b.dispose()


def coq_native(case):
    return f"({C.coq_prog(case['prog'])}, {C.coq_ops(case['ops'])})"


def compare_upto(ref, got, what, with_outcome_at_cut=False):
    """ref/got: lists of [events, outcome, ...]; compared up to the first
    'coroutine ignored GeneratorExit' of the reference (events of that step
    included, its outcome and everything later excluded)"""
    cut = C.cut_at_ignored(ref)
    n = len(ref) if cut is None else cut
    for i in range(n):
        if i >= len(got):
            return f"{what}: step {i} missing (native await: {ref[i]})"
        if got[i] != ref[i]:
            return f"{what}: step {i} is {got[i]} but native await gives {ref[i]}"
    if cut is None:
        if len(got) != len(ref):
            return f"{what}: {len(got)} steps but native await has {len(ref)}"
    else:
        if cut >= len(got):
            return f"{what}: step {cut} missing"
        if got[cut][0] != ref[cut][0]:
            return (f"{what}: events of step {cut} are {got[cut][0]} but native await logs "
                    f"{ref[cut][0]} before 'coroutine ignored GeneratorExit'")
    return None


def first_throw_genexit(ops):
    for i, op in enumerate(ops):
        if op == ["throw", ["GeneratorExit"]]:
            return i
    return len(ops)


def oracle_native(case, ob):
    """direct drive of the coroutine == drive of `await coroutine`"""
    if not isinstance(ob, list) or (ob and ob[0] == -999):
        return f"runner failed: {ob!r}"[:200]
    with C.quiet():
        b = C.Body(case["prog"])
        try:
            import contextvars
            ctx = contextvars.Context()
            r = C.lift(b.new())
            b.kept.append(r)
            ref = C.drive(r, case["ops"], b, stop_at_end=False, ctx=ctx)
        finally:
            b.dispose()
    # coroutine.throw(GeneratorExit) is not what `await` does with a GeneratorExit (it calls
    # close()): compare only the operations before the first direct throw of GeneratorExit
    n = first_throw_genexit(case["ops"])
    return compare_upto(ref[:n], [s[:2] for s in ob][:n], "direct drive")


def gen_native(rng, tier):
    quick = tier == "quick"
    # bounded-exhaustive: all bodies up to 3 nodes (4 in thorough) x all sequences of 3 operations
    alphabet = [["send", None], ["send", 7], ["throw", ["E", 1]], ["throw", ["GeneratorExit"]], ["close"]]
    for n in range(1, 4 if quick else 5):
        for p in C.enum_progs(n):
            p = C.renumber(p)
            if n <= 2 or not quick:
                for ops in itertools.product(alphabet, repeat=3):
                    yield {"prog": p, "ops": [list(o) for o in ops]}
            else:
                for ops in itertools.product(alphabet, repeat=2):
                    yield {"prog": p, "ops": [["send", None]] + [list(o) for o in ops]}
    for i in range(1500 if quick else 30000):
        p = C.renumber(C.random_prog(rng, rng.choice([3, 5, 7, 9, 12]), in_handler=(i % 3 == 1),
                                     vars_=(i % 4 == 0)))
        ops = C.random_ops(rng, rng.choice([2, 3, 4, 6]), start=rng.random() < 0.9)
        yield {"prog": p, "ops": ops}


def nontrivial_native(case, ob):
    return isinstance(ob, list) and sum(1 for s in ob if s[1][0] == 0) >= 1 and len(ob) >= 2


# ----------------------------------------------------------------------------
# stream `wrap`
# ----------------------------------------------------------------------------
def run_wrapped(case, with_inner_state=False):
    ws = case["ws"]
    with C.quiet():
        b = C.Body(case["prog"])
        try:
            it, inner, info = build_stack(ws, b)
            n0 = len(b.log)

            def after(out):
                r = [aux_of(ws[0], info)]
                if with_inner_state:
                    r.append(C.coro_state(inner))
                return r
            trace = C.drive(it, case["ops"], b, stop_at_end=True, after_step=after)
            return [n0, trace]
        finally:
            b.dispose()


def impl_wrap(case):
    return run_wrapped(case)


def coq_wrap(case):
    ws = L.lst(["W" + w for w in case["ws"]])
    return f"({ws}, {C.coq_prog(case['prog'])}, {C.coq_ops(case['ops'])})"


def native_reference(case):
    """CPython's own `await body` driven by the same operations; with the body's state"""
    with C.quiet():
        b = C.Body(case["prog"])
        try:
            inner = b.new()
            r = C.lift(inner)
            b.kept.append(r)
            return C.drive(r, case["ops"], b, stop_at_end=True,
                           after_step=lambda out: [C.coro_state(inner)])
        finally:
            b.dispose()


def oracle_wrap(case, ob):
    if not (isinstance(ob, list) and len(ob) == 2 and isinstance(ob[1], list)):
        return f"runner failed: {ob!r}"[:200]
    if "OOBData" in repr(case["prog"]) and any("Monitor" in w for w in case["ws"]):
        return None     # OOBData is the Monitor's own protocol exception: outside the property
    ref = native_reference(case)
    got = [s[:2] for s in ob[1]]
    if case["ws"][0] == "AwaitMethod":
        # the iterator made by awaitmethod is the coroutine's own: it is meant to be consumed by
        # `await obj` (the Native/AwaitMethod stacks), which never throws GeneratorExit but closes
        n = first_throw_genexit(case["ops"])
        ref, got = ref[:n], got[:n]
    m = compare_upto([s[:2] for s in ref], got, f"{'/'.join(case['ws'])}")
    if m:
        return m
    # the wrapped coroutine must be left in the same state as under native await
    again = run_wrapped(case, with_inner_state=True)
    cut = C.cut_at_ignored(ref)
    n = len(ref) if cut is None else cut
    for i in range(min(n, len(again[1]))):
        if again[1][i][3] != ref[i][2]:
            return (f"{'/'.join(case['ws'])}: after step {i} the wrapped coroutine is in state "
                    f"{again[1][i][3]} but under native await it is in state {ref[i][2]}")
    return None


def _single_wrapper_cases(progs, depth, wrappers, alphabet=None):
    for p in progs:
        seqs = list(C.enum_live_ops(p, depth, alphabet))
        for w in wrappers:
            for ops in seqs:
                yield {"ws": [w], "prog": p, "ops": ops}


SEED_PROGS = [
    # try: await / except GeneratorExit: await again (ignored GeneratorExit)
    ["try", ["tok", 1], ["GeneratorExit"], ["tok", 2]],
    # finally with an await
    ["fin", ["tok", 1], ["seq", ["tok", 2], ["log", 1]]],
    # nested call which swallows everything and returns
    ["seq", ["call", ["try", ["tok", 1], ["BaseException"], ["ret", 6]]], ["tok", 2]],
    # cancel -> cleanup await -> re-raise
    ["try", ["seq", ["tok", 1], ["tok", 2]], ["CancelledError"], ["seq", ["tok", 3], ["reraise"]]],
    # StopIteration raised by the body
    ["seq", ["tok", 1], ["raise", ["StopIteration", 4]]],
]


# a bare `raise` where no exception is being handled (after the handler has completed, in a
# finally block entered normally, in a nested call): natively RuntimeError('No active exception
# to reraise'); must not pick up an exception some wrapper happens to be handling (finding F14)
BARE_SEEDS = [
    ["seq", ["try", ["tok", 1], ["E1"], ["skip"]], ["reraise"]],
    ["seq", ["try", ["tok", 1], ["BaseException"], ["tok", 2]], ["seq", ["log", 1], ["reraise"]]],
    ["fin", ["try", ["tok", 1], ["E1", "CancelledError"], ["log", 1]], ["try", ["reraise"], ["Exception"], ["tok", 2]]],
    ["seq", ["try", ["tok", 1], ["E1"], ["log", 1]], ["call", ["seq", ["tok", 2], ["reraise"]]]],
]


def has_bare_reraise(p, handled=False):
    k = p[0]
    if k == "reraise":
        return not handled
    if k == "call":
        return has_bare_reraise(p[1], handled)
    if k == "seq":
        return has_bare_reraise(p[1], handled) or has_bare_reraise(p[2], handled)
    if k == "fin":
        return has_bare_reraise(p[1], handled) or has_bare_reraise(p[2], handled)
    if k == "try":
        return has_bare_reraise(p[1], handled) or has_bare_reraise(p[3], True)
    return False


def gen_wrap(rng, tier):
    quick = tier == "quick"
    real = WRAPPERS[:8]
    # 1. bounded-exhaustive, depth 1: every wrapper x every body up to 3 (4) nodes x every live
    #    driver sequence of up to 2 (3) operations after the start
    progs = [C.renumber(p) for n in range(1, 4 if quick else 5) for p in C.enum_progs(n)]
    progs = [p for p in progs if "tok" in repr(p)] + [p for p in progs if "tok" not in repr(p)][:12]
    yield from _single_wrapper_cases(progs, 2 if quick else 3, real)
    for c in _single_wrapper_cases(progs, 2 if quick else 3, ["AwaitMethod"]):
        c["ws"] = ["Native", "AwaitMethod"]
        yield c
    yield from _single_wrapper_cases([C.renumber(p) for p in SEED_PROGS + BARE_SEEDS], 3, real)
    # 2. bounded-exhaustive, depth 2: every ordered pair of wrappers x seed bodies
    pairs = [[a, b] for a in real for b in WRAPPERS] + [["Native", "AwaitMethod"]]
    for p in [C.renumber(q) for q in SEED_PROGS]:
        seqs = list(C.enum_live_ops(p, 2 if quick else 3))
        for ws in pairs:
            for ops in seqs:
                yield {"ws": ws, "prog": p, "ops": ops}
    # 2b. outside the property, model vs code only: the body raises the Monitor's own OOBData
    for p in [["raise", ["OOBData", 1]], ["seq", ["log", 1], ["raise", ["OOBData", None]]],
              ["seq", ["tok", 11], ["raise", ["OOBData", 2]]],
              ["try", ["raise", ["OOBData", 1]], ["Exception"], ["tok", 11]]]:
        for ws in [["Monitor"], ["BoundMonitor"], ["CoroIter", "Monitor"], ["Monitor", "BoundMonitor"],
                   ["CoroStart"], ["Monitor", "CoroAwait"]]:
            for ops in C.enum_live_ops(p, 1):
                yield {"ws": ws, "prog": p, "ops": ops}
    # 3. random: larger bodies, longer drivers, stacks of depth 1..3
    for i in range(1800 if quick else 60000):
        p = C.renumber(C.random_prog(rng, rng.choice([3, 5, 7, 9, 12]), in_handler=(i % 5 == 1),
                                     oob=(i % 10 == 0)))
        depth = rng.choice([1, 1, 2, 2, 3])
        ws = [rng.choice(real)] + [rng.choice(WRAPPERS) for _ in range(depth - 1)]
        if ws[0] == "AwaitMethod" and i % 2:
            ws = ["Native"] + ws          # `await obj` with obj.__await__ made by awaitmethod
        yield {"ws": ws, "prog": p, "ops": C.random_ops(rng, rng.choice([2, 3, 4, 6]))}


def nontrivial_wrap(case, ob):
    """the relay handled at least one operation after a suspension"""
    try:
        tr = ob[1]
        return len(tr) >= 2 and tr[0][1][0] == 0
    except Exception:
        return False


def shrink_case(case):
    ops = case.get("ops", [])
    for i in range(len(ops) - 1, 0, -1):
        c = dict(case); c["ops"] = ops[:i] + ops[i + 1:]
        yield c
    if "ws" in case and len(case["ws"]) > 1:
        for i in range(len(case["ws"])):
            c = dict(case); c["ws"] = case["ws"][:i] + case["ws"][i + 1:]
            yield c
    for q in shrink_prog(case["prog"]):
        c = dict(case); c["prog"] = q
        yield c


def shrink_prog(p):
    k = p[0]
    subs = {"call": [1], "seq": [1, 2], "fin": [1, 2], "try": [1, 3]}.get(k, [])
    for i in subs:
        yield p[i]
    for i in subs:
        for q in shrink_prog(p[i]):
            r = list(p); r[i] = q
            yield r


# ----------------------------------------------------------------------------
# stream `cs`: CoroStart.athrow / aclose / second await
# ----------------------------------------------------------------------------
def _cs_awaitable(cs, mode):
    if mode[0] == "athrow":
        return cs.athrow(C.make_exn(mode[1]))
    if mode[0] == "aclose":
        return cs.aclose()
    return cs


def impl_cs(case):
    import asynkit
    with C.quiet():
        b = C.Body(case["prog"])
        try:
            cs = asynkit.CoroStart(b.new())
            ev0 = b.drain()
            st = [1 if cs.done() else 0, 1 if cs.start_result is None else 0]
            a = _cs_awaitable(cs, case["m1"]).__await__()
            b.kept.append(a)
            tr1 = C.drive(a, case["ops1"], b)
            tr2 = []
            ended = bool(tr1) and tr1[-1][1][0] != 0 and tr1[-1][1] != C.IGNORED_GENEXIT
            if ended:
                a2 = _cs_awaitable(cs, case["m2"]).__await__()
                b.kept.append(a2)
                tr2 = C.drive(a2, case["ops2"], b)
            return [ev0, st, tr1, tr2]
        finally:
            b.dispose()


def coq_mode(m):
    if m[0] == "athrow":
        return f"MAthrow {C.coq_exn(m[1])}"
    return "MAclose" if m[0] == "aclose" else "MAwait"


def coq_cs(case):
    return (f"({C.coq_prog(case['prog'])}, {coq_mode(case['m1'])}, {C.coq_ops(case['ops1'])}, "
            f"{coq_mode(case['m2'])}, {C.coq_ops(case['ops2'])})")


def pep380_drive(c, ops, body, raw_first=False):
    """what `await c` does with each operation, written out (PEP 380): send -> c.send, throw ->
    c.throw, except GeneratorExit (and close()) -> c.close() and then GeneratorExit.  With
    raw_first the first operation is applied to c as it is."""
    trace = []
    for i, op in enumerate(ops):
        if op[0] == "throw" and op[1] == ["GeneratorExit"] and not (raw_first and i == 0):
            out = C.apply_op(c, ["close"])
            if out == [1, []]:
                out = [2, [1]]
        else:
            out = C.apply_op(c, op)
        trace.append([body.drain(), out])
        if out[0] != 0:
            break
    return trace


def oracle_cs(case, ob):
    if not (isinstance(ob, list) and len(ob) == 4):
        return f"runner failed: {ob!r}"[:200]
    ev0, st, tr1, tr2 = ob
    m1, ops1 = case["m1"], case["ops1"]
    if not ops1 or ops1[0] != ["send", None]:
        return None
    # reference: the body coroutine itself; CoroStart() = send(None); athrow(e) = throw e at the
    # suspension; everything after = PEP 380 forwarding
    with C.quiet():
        b = C.Body(case["prog"])
        try:
            c = b.new()
            first = C.drive(c, [["send", None]], b)[0]
            if first[0] != ev0:
                return f"CoroStart() ran {ev0} but the first native step logs {first[0]}"
            done = first[1][0] != 0
            if done != bool(st[0]):
                return f"done()={st[0]} but the native first step gives {first[1]}"
            if m1[0] == "await":
                ref = [[[], first[1]]] + ([] if done else pep380_drive(c, ops1[1:], b))
                m = compare_upto(ref, tr1, "await CoroStart")
            elif m1[0] == "athrow":
                ref = pep380_drive(c, [["throw", m1[1]]] + ops1[1:], b, raw_first=True)
                m = compare_upto(ref, tr1, f"athrow({m1[1]})")
            else:   # aclose
                if done:
                    ref = [[[], [1, []]]]       # documented: nothing to close, returns None
                else:
                    ref = pep380_drive(c, [["throw", ["GeneratorExit"]]] + ops1[1:], b, raw_first=True)
                    # aclose absorbs GeneratorExit and discards a returned value
                    if ref[-1][1] == [2, [1]] or ref[-1][1][0] == 1:
                        ref[-1] = [ref[-1][0], [1, []]]
                m = compare_upto(ref, tr1, "aclose()")
            if m:
                return m
        finally:
            b.dispose()
    # a second awaitable after the first ended: the coroutine is exhausted
    if tr2:
        m2 = case["m2"]
        exp = [1, []] if m2[0] == "aclose" else [2, [5, 2]]
        if tr2[0][1] != exp or tr2[0][0]:
            return f"second use ({m2[0]}) after the end gives {tr2[0]}, expected outcome {exp}"
    return None


def gen_cs(rng, tier):
    quick = tier == "quick"
    modes = [["athrow", ["E", 1]], ["athrow", ["GeneratorExit"]], ["athrow", ["CancelledError"]],
             ["aclose"], ["await"]]
    progs = [C.renumber(p) for n in range(1, 4 if quick else 5) for p in C.enum_progs(n)]
    progs = [p for p in progs if "tok" in repr(p)] + [p for p in progs if "tok" not in repr(p)][:8]
    progs += [C.renumber(p) for p in SEED_PROGS + BARE_SEEDS]
    alphabet = C.OPS_SMALL
    k = 0
    for p in progs:
        for m1 in modes:
            for tail in itertools.product(alphabet, repeat=1 if quick else 2):
                k += 1
                yield {"prog": p, "m1": m1, "ops1": [["send", None]] + [list(o) for o in tail],
                       "m2": modes[k % len(modes)], "ops2": [["send", None]]}
    for i in range(700 if quick else 20000):
        p = C.renumber(C.random_prog(rng, rng.choice([3, 5, 7, 9]), in_handler=(i % 5 == 1)))
        m1 = rng.choice(modes + [["athrow", rng.choice(C.RAISABLE[:5])]])
        yield {"prog": p, "m1": m1, "ops1": C.random_ops(rng, rng.choice([1, 2, 3, 5])),
               "m2": rng.choice(modes), "ops2": C.random_ops(rng, rng.choice([0, 1]))}


def nontrivial_cs(case, ob):
    try:
        return ob[1][0] == 0 and len(ob[2]) >= 1
    except Exception:
        return False


def shrink_cs(case):
    for key in ("ops1", "ops2"):
        ops = case[key]
        for i in range(len(ops) - 1, 0, -1):
            c = dict(case); c[key] = ops[:i] + ops[i + 1:]
            yield c
    for q in shrink_prog(case["prog"]):
        c = dict(case); c["prog"] = q
        yield c


def signature(stream, case, msg):
    """one report per stream and outermost wrapper / mode; F14 = a bare `raise` outside any
    handler picks up the exception a relay loop is handling"""
    if stream in ("wrap", "cs") and has_bare_reraise(case["prog"]) and "[5, 5]" in msg.replace("[[5, 5]]", "[5, 5]"):
        return "F14-relay-exc-info-leak"
    if stream == "wrap":
        return f"C02-wrap-{case['ws'][0]}-{len(case['ws'])}"
    if stream == "cs":
        return f"C02-cs-{case['m1'][0]}"
    return f"C02-{stream}"


def describe(case):
    d = dict(case)
    d["source"] = C.render(case["prog"])
    return d


PROP = Prop(
    pid="C02",
    props_v="theories/Props/C02.v",
    theory_files=["theories/Coro/Tree.v", "theories/Coro/Native.v", "theories/Coro/Prog.v",
                  "theories/Coro/TreeProofs.v", "theories/Coro/Relay.v", "theories/Coro/RelayProofs.v", "theories/Coro/AwaitMethodProofs.v",
                  "theories/Coro/RelayCorr.v"],
    streams=[
        Stream(name="native", imports=CORO_IMPORTS, run="native_run",
               input_type="prog * list dop", gen=gen_native, impl=impl_native, to_coq=coq_native,
               oracle=oracle_native, nontrivial=nontrivial_native, shrink=shrink_case,
               describe=describe, corr_name="CPython coroutine protocol (Tree/Native/Prog)"),
        Stream(name="wrap", imports=CORO_IMPORTS, run="wrap_run",
               input_type="list wrapper * prog * list dop", gen=gen_wrap, impl=impl_wrap,
               to_coq=coq_wrap, oracle=oracle_wrap, nontrivial=nontrivial_wrap, shrink=shrink_case,
               describe=describe, corr_name="asynkit wrappers (Relay.v)"),
        Stream(name="cs", imports=CORO_IMPORTS, run="cs_run",
               input_type="prog * cs_mode * list dop * cs_mode * list dop", gen=gen_cs, impl=impl_cs,
               to_coq=coq_cs, oracle=oracle_cs, nontrivial=nontrivial_cs, shrink=shrink_cs,
               describe=describe, corr_name="CoroStart.athrow/aclose (Relay.v)"),
    ],
    rule="bodies: every prog with <= 3 nodes (thorough: 4) over {log, await token, return, raise E1, "
         "re-raise, nested call, seq, try/except over 5 class sets, finally} plus seed bodies, x every "
         "maximal live driver sequence over {send 7, throw E1, throw GeneratorExit, close} after the "
         "initial send(None), x each of the 8 wrappers; all ordered pairs of wrappers on the seed "
         "bodies; random bodies (3..12 nodes), drivers (<= 7 ops over 11 operations) and stacks of "
         "depth 1..3.  Non-trivial = the body suspended and at least one more operation went through "
         "the wrapper; distinct = distinct canonical JSON of the input",
    signature=signature,
    assumptions=["CPython 3.12 coroutine/generator protocol is modelled by Coro/Tree.v + Native.v and "
                 "validated against CPython by the `native` stream",
                 "each wrapper is awaited once; the body does not use Monitor.oob() (C07) and no "
                 "context= argument is given to CoroStart (C04)"],
)
