"""C06 - GeneratorObject iterators behave like native async generators.

One AST of a generator body (gprog, mirrors Coro/GenObjCorr.v) is rendered TWICE:
  native : `async def f0(): ... yield v ...`            (CPython's async generator)
  genobj : `async def f0(): ... await nest(G, d, v) ...` driven through
           asynkit.GeneratorObject()(f0()); nest(G, d, v) awaits G.ayield(v) from
           inside d pass-through coroutines.
and driven by one consumer history:
  ["start", ["next"] | ["send", v] | ["throw", exn] | ["close"]]   create the awaitable, send(None)
  ["resume", ["send", v] | ["throw", exn]]                          resume the suspended awaitable
(a start while an awaitable is suspended = a second consumer).

Streams
  native : Coro/AsyncGen.v  vs CPython 3.12.1  (validates the REFERENCE, incl. the ag_running quirk)
  genobj : Coro/GenObj.v    vs asynkit.GeneratorObject
           oracle (independent of Coq): the GeneratorObject trace equals the trace of the
           native async generator on the same history: body events, result / exception type
           + cause type (not message text), ag_running, frame state, awaitable left
           suspended; the comparison ends with the first native step that reports "async
           generator ignored GeneratorExit" or leaves the native object ill-formed
           (ag_running and ag_frame is None; CPython 3.12.1 quirk) -- of that step events and
           result are still compared.

JSON gprog : ["skip"] ["log", n] ["tok", y] ["yield", v, depth] ["call", p] ["seq", p, q]
             ["try", body, [cls..], handler] ["fin", body, fin] ["ret", v] ["raise", exn] ["reraise"]

asyncgen hooks (sys.set_asyncgen_hooks: firstiter/finalizer) and __del__ depend on garbage
collection and are outside the model and this check.
"""
from __future__ import annotations

import itertools
import random
import warnings

from .. import coqlit as L
from .. import coro_lang as C
from ..framework import Prop, Stream

warnings.filterwarnings("ignore", category=DeprecationWarning, message=".*signature of .*throw.*")

IMPORTS = ["Coro.Tree", "Coro.Native", "Coro.AsyncGen", "Coro.GenObj", "Coro.GenObjCorr"]


# ----------------------------------------------------------------------------
# exception codes at the consumer level (message kinds of this layer first)
# ----------------------------------------------------------------------------
def exc_code(e):
    if type(e) is RuntimeError:
        msg = str(e)
        if "async generator raised StopIteration" in msg:
            return [5, 101]
        if "async generator raised StopAsyncIteration" in msg:
            return [5, 102]
        if "asynchronous generator is already running" in msg:
            return [5, 103]
    return C.exc_code(e)


def type_code(code):
    """exception type without message kind / StopIteration value (AsyncGen.exn_type)"""
    return [code[0]] if code[0] in (3, 5, 6, 7) else code


def cause_code(e):
    c = e.__cause__
    return [] if c is None else [type_code(exc_code(c))]


# ----------------------------------------------------------------------------
# rendering
# ----------------------------------------------------------------------------
class _GRender(C._Render):
    def __init__(self, mode):
        super().__init__()
        self.mode = mode

    def stmts(self, p, ind):
        pad = "    " * ind
        if p[0] == "yield":
            if self.mode == "native":
                return [pad + f"L.append([1, enc((yield {C._pyval(p[1])}))])"]
            return [pad + f"L.append([1, enc(await nest(G, {int(p[2])}, {C._pyval(p[1])}))])"]
        if p[0] == "ret" and p[1] is None:
            return [pad + "return"]
        return super().stmts(p, ind)


def render(p, mode) -> str:
    r = _GRender(mode)
    r.func(p)
    if mode == "native":
        head, rest = r.funcs[0].split("\n", 1)
        # makes f0 an async generator even if no yield is reachable; never executed
        r.funcs[0] = head + "\n    if 0: yield\n" + rest
    return "\n".join(r.funcs)


def has_yield(p):
    k = p[0]
    if k == "yield":
        return True
    subs = {"call": [1], "seq": [1, 2], "fin": [1, 2], "try": [1, 3]}.get(k, [])
    return any(has_yield(p[i]) for i in subs)


def well_formed(p, top=True):
    """renderable as a native async generator: no yield inside nested calls, bare return at top"""
    k = p[0]
    if k == "call":
        return not has_yield(p[1]) and well_formed(p[1], False)
    if k == "ret":
        return p[1] is None or not top
    subs = {"seq": [1, 2], "fin": [1, 2], "try": [1, 3]}.get(k, [])
    return all(well_formed(p[i], top) for i in subs)


class GBody:
    """a compiled gprog in one of the two renderings, with its own log"""

    def __init__(self, p, mode):
        self.log = []
        self.kept = []
        self.mode = mode
        self.ns = {"L": self.log, "enc": C.enc, "xc": C.exc_code, "tok": C.tok, "X": C.exc_class,
                   "CV": C.CV, "keep": self._keep, "nest": self._nest, "G": None}
        exec(compile(render(p, mode), f"<gprog:{mode}>", "exec"), self.ns)

    def _keep(self, c):
        self.kept.append(c)
        return c

    async def _nest(self, g, d, v):
        if d == 0:
            return await g.ayield(v)
        return await self._keep(self._nest(g, d - 1, v))

    def drain(self):
        out = list(self.log)
        del self.log[:]
        return out

    def dispose(self, agens=(), pending=None):
        """finish everything silently; what cannot be finished (bodies that keep ignoring
        GeneratorExit) is parked in _LEAKED so that no finaliser runs before the process ends"""
        self.ns["L"] = []
        stuck = False
        if pending is not None and agens:
            for _ in range(50):            # end the suspended native awaitable
                try:
                    pending.throw(_Kill())
                except BaseException:
                    break
        for ag in agens:                   # finish native generators
            for _ in range(50):
                if ag.ag_frame is None:
                    break
                try:
                    a = ag.aclose()
                    for _ in range(50):
                        a.send(None)
                except BaseException:
                    pass
            stuck = stuck or ag.ag_frame is not None
        if not stuck:
            for c in reversed(self.kept):
                for _ in range(50):
                    try:
                        c.close()
                        break
                    except BaseException:
                        pass
                else:
                    stuck = True
        if stuck:
            _LEAKED.append((list(agens), pending, list(self.kept)))
        del self.kept[:]


class _Kill(BaseException):
    pass


_LEAKED: list = []


def _mute_at_exit():
    import sys
    sys.unraisablehook = lambda *a: None


import atexit  # noqa: E402
atexit.register(_mute_at_exit)


# ----------------------------------------------------------------------------
# runners
# ----------------------------------------------------------------------------
def _apply(aw, op):
    """send / throw into an awaitable -> [outcome, cause]"""
    try:
        if op[0] == "send":
            y = aw.send(op[1])
        else:
            y = aw.throw(C.make_exn(op[1]))
    except StopIteration as e:
        return [[1, C.enc(e.value)], []]
    except BaseException as e:
        return [[2, exc_code(e)], cause_code(e)]
    return [[0, C.enc(y)], []]


class Runner:
    """drives one generator object by history operations"""

    def __init__(self, p, mode):
        self.body = GBody(p, mode)
        self.mode = mode
        self.pending = None
        if mode == "native":
            self.ag = self.body.ns["f0"]()
        else:
            import asynkit
            self.g = asynkit.GeneratorObject()
            self.body.ns["G"] = self.g
            self.coro = self.body._keep(self.body.ns["f0"]())
            self.ag = self.g(self.coro)

    def _awaitable(self, call):
        k = call[0]
        if k == "next":
            a = self.ag.__anext__()
        elif k == "send":
            a = self.ag.asend(call[1])
        elif k == "throw":
            a = self.ag.athrow(C.make_exn(call[1]))
        else:
            a = self.ag.aclose()
        if self.mode != "native":
            self.body._keep(a)
        return a

    def fstate(self):
        if self.mode == "native":
            fr = self.ag.ag_frame
            return 2 if fr is None else (1 if self.ag.ag_suspended else 0)
        return C.coro_state(self.coro)

    def step(self, op):
        if op[0] == "start":
            aw = self._awaitable(op[1])
            out = _apply(aw, ["send", None])
            if out[0][0] == 0:
                self.pending = aw
        else:
            if self.pending is None:
                out = []
            else:
                out = _apply(self.pending, op[1])
                if out[0][0] != 0:
                    self.pending = None
        st = [self.body.drain(), out, 1 if self.ag.ag_running else 0, self.fstate(),
              1 if self.pending is not None else 0]
        if self.mode != "native":
            st.append(self.g.monitor.state)
        return st

    def close(self):
        pending, self.pending = self.pending, None
        self.body.dispose([self.ag] if self.mode == "native" else [], pending)


def run_history(p, hist, mode):
    with C.quiet():
        def go():
            r = Runner(p, mode)
            try:
                return [r.step(op) for op in hist]
            finally:
                r.close()
        return go()


def impl_native(case):
    return run_history(case["prog"], case["hist"], "native")


def impl_genobj(case):
    return run_history(case["prog"], case["hist"], "genobj")


# ----------------------------------------------------------------------------
# Gallina printers
# ----------------------------------------------------------------------------
def coq_gprog(p):
    k = p[0]
    if k == "skip":
        return "GSkip"
    if k == "log":
        return f"(GLog {L.z(p[1])})"
    if k == "tok":
        return f"(GAwaitTok {L.z(p[1])})"
    if k == "yield":
        return f"(GYieldP {C.coq_val(p[1])} {L.nat(p[2])})"
    if k == "call":
        return f"(GCall {coq_gprog(p[1])})"
    if k == "seq":
        return f"(GSeq {coq_gprog(p[1])} {coq_gprog(p[2])})"
    if k == "try":
        return f"(GTry {coq_gprog(p[1])} {L.lst([C.coq_cls(c) for c in p[2]])} {coq_gprog(p[3])})"
    if k == "fin":
        return f"(GFinally {coq_gprog(p[1])} {coq_gprog(p[2])})"
    if k == "ret":
        return f"(GReturn {C.coq_val(p[1])})"
    if k == "raise":
        return f"(GRaiseP {C.coq_exn(p[1])})"
    if k == "reraise":
        return "GReraise"
    raise ValueError(p)


def coq_hop(op):
    if op[0] == "start":
        c = op[1]
        if c[0] == "next":
            return "HStart (CSend VNone)"
        if c[0] == "send":
            return f"HStart (CSend {C.coq_val(c[1])})"
        if c[0] == "throw":
            return f"HStart (CThrow {C.coq_exn(c[1])})"
        return "HStart CClose"
    i = op[1]
    if i[0] == "send":
        return f"HResume (Send {C.coq_val(i[1])})"
    return f"HResume (Throw {C.coq_exn(i[1])})"


def to_coq(case):
    return f"({coq_gprog(case['prog'])}, {L.lst([coq_hop(o) for o in case['hist']])})"


# ----------------------------------------------------------------------------
# oracle: GeneratorObject == native async generator
# ----------------------------------------------------------------------------
OUT_OF_DOMAIN = ("StopIteration", "StopAsyncIteration", "OOBData")


def op_in_domain(op):
    """thrown exceptions other than StopIteration / StopAsyncIteration (and asynkit's own
    OOBData); no direct throw(GeneratorExit) into a suspended awaitable (an `await` never does
    that: it calls close())"""
    x = op[1]
    if x[0] == "throw":
        if x[1][0] in OUT_OF_DOMAIN:
            return False
        if op[0] == "resume" and x[1][0] == "GeneratorExit":
            return False
    return True


def abs_step(st):
    out = st[1]
    if out:
        o = out[0]
        out = [o if o[0] != 2 else [2, type_code(o[1])], out[1]]
    return [st[0], out, st[2], st[3], st[4]]


def native_stops(st):
    out = st[1]
    ignored = bool(out) and out[0] == [2, [5, 1]] and st[3] != 2
    illformed = st[2] == 1 and st[3] == 2
    return ignored or illformed


def oracle_genobj(case, ob):
    if not isinstance(ob, list) or (ob and ob[0] == -999):
        return f"runner failed: {ob!r}"[:200]
    if "OOBData" in repr(case["prog"]):
        return None                       # the Monitor's own protocol exception: outside the property
    hist = case["hist"]
    n = len(hist)
    for i, op in enumerate(hist):
        if not op_in_domain(op):
            n = i
            break
    ref = run_history(case["prog"], hist[:n], "native")
    for i in range(n):
        r, g = abs_step(ref[i]), abs_step(ob[i][:5])
        if native_stops(ref[i]):
            if r[:2] != g[:2]:
                return (f"step {i} ({hist[i]}): GeneratorObject gives events/result {g[:2]} but the native "
                        f"async generator {r[:2]}")
            return None
        if r != g:
            return (f"step {i} ({hist[i]}): GeneratorObject gives {g} but the native async generator "
                    f"{r}  [events, [result, cause], ag_running, frame state, suspended]")
    return None


def oracle_native(case, ob):
    """the reference is CPython itself; only the documented origin of the ill-formed state is
    checked: ag_running with the frame gone appears only when a throw() ends a suspended aclose()"""
    if not isinstance(ob, list) or (ob and ob[0] == -999):
        return f"runner failed: {ob!r}"[:200]
    closing = False
    ill = False
    for op, st in zip(case["hist"], ob):
        now = st[2] == 1 and st[3] == 2
        if now and not ill:
            if not (op[0] == "resume" and op[1][0] == "throw" and closing):
                return f"native generator ill-formed (ag_running, no frame) after {op}, not the known quirk"
        ill = ill or now
        if op[0] == "start" and st[1] and st[1][0][0] == 0:
            closing = op[1][0] == "close"
        elif st[4] == 0:
            closing = False
    return None


# ----------------------------------------------------------------------------
# generators
# ----------------------------------------------------------------------------
LEAVES = [["log", 1], ["tok", 1], ["yield", 1, 0], ["ret", None], ["raise", ["E", 1]]]
CLS_SETS = [["E1"], ["GeneratorExit"], ["BaseException"], ["CancelledError", "E2"], ["Exception"]]

STARTS = [["start", ["next"]], ["start", ["send", 7]], ["start", ["throw", ["E", 1]]],
          ["start", ["throw", ["GeneratorExit"]]], ["start", ["close"]]]
RESUMES = [["resume", ["send", 7]], ["resume", ["throw", ["E", 1]]], ["resume", ["throw", ["CancelledError"]]],
           ["start", ["next"]], ["start", ["close"]]]

THROWN = [["E", 1], ["E", 2], ["BaseE", 1], ["CancelledError"], ["GeneratorExit"]]
THROWN_OUT = [["StopIteration", None], ["StopIteration", 3], ["StopAsyncIteration"]]


def renumber(p, counter=None):
    counter = counter if counter is not None else {"log": 0, "tok": 0, "yield": 0}
    k = p[0]
    if k in ("log", "tok"):
        counter[k] += 1
        return [k, counter[k] + (10 if k == "tok" else 0)]
    if k == "yield":
        counter[k] += 1
        return ["yield", counter[k] + 20, p[2]]
    if k == "call":
        return ["call", renumber(p[1], counter)]
    if k in ("seq", "fin"):
        a = renumber(p[1], counter)
        return [k, a, renumber(p[2], counter)]
    if k == "try":
        a = renumber(p[1], counter)
        return ["try", a, p[2], renumber(p[3], counter)]
    return p


def enum_bodies(n):
    for p in C.enum_progs(n, leaves=LEAVES, cls_sets=CLS_SETS):
        if well_formed(p):
            yield renumber(p)


def enum_histories(p, depth):
    """every history of `depth` operations (shorter when the comparison ends earlier), steered by
    the native generator: resumptions only while an awaitable is suspended"""
    with C.quiet():
        def rec(prefix, d):
            if d == 0:
                yield prefix
                return
            tr = run_history(p, prefix, "native") if prefix else []
            if tr and native_stops(tr[-1]):
                yield prefix
                return
            pending = bool(tr) and tr[-1][4] == 1
            for op in (RESUMES if pending else STARTS):
                yield from rec(prefix + [op], d - 1)
        yield from rec([], depth)


SEEDS = [
    # cleanup await in a finally: aclose() suspended, resumed by send / throw (the quirk)
    ["fin", ["yield", 1, 0], ["tok", 1]],
    # GeneratorExit swallowed, yields again: ignored GeneratorExit
    ["try", ["yield", 1, 0], ["GeneratorExit"], ["yield", 2, 0]],
    # handler awaits, then yields
    ["try", ["yield", 1, 0], ["BaseException"], ["seq", ["tok", 1], ["yield", 2, 0]]],
    # await before the first yield, values flow
    ["seq", ["tok", 1], ["seq", ["yield", 1, 0], ["seq", ["tok", 2], ["yield", 2, 0]]]],
    # body raises StopIteration / StopAsyncIteration / GeneratorExit after a yield
    ["seq", ["yield", 1, 0], ["raise", ["StopIteration", 4]]],
    ["seq", ["yield", 1, 0], ["raise", ["StopAsyncIteration"]]],
    ["seq", ["yield", 1, 0], ["raise", ["GeneratorExit"]]],
    # CancelledError handler with cleanup and re-raise
    ["try", ["seq", ["tok", 1], ["yield", 1, 0]], ["CancelledError"], ["seq", ["tok", 2], ["reraise"]]],
    # nested call with a real suspension, then yield from depth 2
    ["seq", ["call", ["seq", ["tok", 1], ["ret", 5]]], ["yield", 1, 2]],
    # ayield from depth 3 under a handler that yields again
    ["try", ["yield", 1, 3], ["E1", "GeneratorExit"], ["yield", 2, 1]],
    # finally that yields
    ["fin", ["seq", ["yield", 1, 0], ["tok", 1]], ["yield", 2, 0]],
    # await in the handler of the await
    ["try", ["tok", 1], ["BaseException"], ["seq", ["tok", 2], ["yield", 1, 0]]],
]

CLS_ALL = C.CLS_ALL + ["StopAsyncIteration"]
RAISABLE = C.RAISABLE + [["StopAsyncIteration"]]


def random_gprog(rng, size, in_handler=False, in_call=False, depth=0, oob=False):
    if size <= 1:
        r = rng.random()
        if r < 0.30 and not in_call:
            return ["yield", 1, rng.choice([0, 0, 0, 1, 2, 3])]
        if r < 0.55:
            return ["tok", 1]
        if r < 0.70:
            return ["log", 1]
        if r < 0.78:
            return ["ret", rng.choice([None, 5]) if in_call else None]
        if r < 0.92:
            return ["raise", rng.choice(RAISABLE + ([["OOBData", 1]] * 4 if oob else []))]
        if in_handler:
            return ["reraise"]
        return ["tok", 1]
    r = rng.random()
    rest = size - 1
    k = rng.randint(1, max(1, rest - 1))
    if r < 0.34:
        return ["seq", random_gprog(rng, k, in_handler, in_call, depth, oob),
                random_gprog(rng, rest - k, in_handler, in_call, depth, oob)]
    if r < 0.70:
        cls = rng.sample(CLS_ALL, rng.choice([1, 1, 1, 2, 3]))
        return ["try", random_gprog(rng, k, in_handler, in_call, depth, oob), cls,
                random_gprog(rng, rest - k, True, in_call, depth, oob)]
    if r < 0.88:
        return ["fin", random_gprog(rng, k, in_handler, in_call, depth, oob),
                random_gprog(rng, rest - k, in_handler, in_call, depth, oob)]
    if depth < 2:
        return ["call", random_gprog(rng, rest, False, True, depth + 1, oob)]
    return ["seq", random_gprog(rng, k, in_handler, in_call, depth, oob),
            random_gprog(rng, rest - k, in_handler, in_call, depth, oob)]


def random_history(rng, p, n, wild=False):
    """random walk steered by the native generator"""
    hist = []
    with C.quiet():
        def go():
            r = Runner(p, "native")
            try:
                pending = False
                for _ in range(n):
                    thrown = rng.choice(THROWN + (THROWN_OUT if wild else []))
                    x = rng.random()
                    if pending and x < 0.8:
                        if rng.random() < 0.5:
                            op = ["resume", ["send", rng.choice([None, 7, 8])]]
                        else:
                            if thrown == ["GeneratorExit"] and not wild:
                                thrown = ["E", 1]
                            op = ["resume", ["throw", thrown]]
                    elif not pending and x < 0.04:
                        op = ["resume", ["send", None]]       # nothing suspended: no-op
                    else:
                        y = rng.random()
                        if y < 0.35:
                            op = ["start", ["next"]]
                        elif y < 0.55:
                            op = ["start", ["send", rng.choice([None, 7, 8])]]
                        elif y < 0.8:
                            op = ["start", ["throw", thrown]]
                        else:
                            op = ["start", ["close"]]
                    hist.append(op)
                    st = r.step(op)
                    pending = st[4] == 1
            finally:
                r.close()
        go()
    return hist


def gen_cases(rng, tier, stream):
    quick = tier == "quick"
    off = 0 if stream == "native" else 1
    # 1. bounded-exhaustive: every body of <= 3 nodes x every steered history of 3 ops (quick: bodies
    #    of 3 nodes with every history of 2 ops and every 8th history of 3 ops); thorough also every
    #    body of 4 nodes with a yield or an await x every 2nd history of 3 ops, and bodies of <= 2
    #    nodes x every history of 4 ops
    k = 0
    for n in range(1, 4 if quick else 5):
        for p in enum_bodies(n):
            if n >= 3 and not (has_yield(p) or "tok" in repr(p)):
                continue
            if quick and n == 3:
                for h in enum_histories(p, 2):
                    yield {"prog": p, "hist": h}
            for h in enum_histories(p, 4 if (n <= 2 and not quick) else 3):
                k += 1
                if quick and n == 3 and (k + off) % 8:
                    continue
                if n == 4 and (k + off) % 2:
                    continue
                yield {"prog": p, "hist": h}
    # 2. seed bodies x every steered history of 3 operations, and every 8th of 4 (thorough: all of 4,
    #    every 8th of 5)
    for p in SEEDS:
        p = renumber(p)
        for h in enum_histories(p, 3 if quick else 4):
            yield {"prog": p, "hist": h}
        for h in enum_histories(p, 4 if quick else 5):
            k += 1
            if (k + off) % 8:
                continue
            yield {"prog": p, "hist": h}
    # 3. random bodies and histories; every 6th with out-of-domain throws (model vs code only
    #    from the first such operation on), every 15th body raising OOBData (genobj: model only)
    for i in range(1500 if quick else 20000):
        p = renumber(random_gprog(rng, rng.choice([3, 5, 7, 9, 12]), in_handler=(i % 7 == 1),
                                  oob=(stream == "genobj" and i % 15 == 0)))
        h = random_history(rng, p, rng.choice([3, 4, 6, 8]), wild=(i % 6 == 0))
        if stream == "genobj":
            # a direct throw(GeneratorExit) into a suspended awaitable is outside the property (an `await`
            # never does that) AND outside what Coro/GenObj.v is validated for (the thorough tier found a body
            # on which the model answers differently from the unchanged code there): the history ends before it
            for j, op in enumerate(h):
                if op[0] == "resume" and op[1][0] == "throw" and op[1][1][0] == "GeneratorExit":
                    h = h[:j]
                    break
        yield {"prog": p, "hist": h}


def gen_native(rng, tier):
    return gen_cases(rng, tier, "native")


def gen_genobj(rng, tier):
    return gen_cases(rng, tier, "genobj")


def nontrivial(case, ob):
    """the generator produced a value or suspended, and at least two calls were made"""
    try:
        real = [s for s in ob if s[1]]
        return len(real) >= 2 and any(s[1][0][0] in (0, 1) and s[3] == 1 for s in real)
    except Exception:
        return False


def shrink(case):
    h = case["hist"]
    for i in range(len(h) - 1, -1, -1):
        c = dict(case); c["hist"] = h[:i] + h[i + 1:]
        yield c
    for q in shrink_prog(case["prog"]):
        if well_formed(q):
            c = dict(case); c["prog"] = q
            yield c


def shrink_prog(p):
    k = p[0]
    subs = {"call": [1], "seq": [1, 2], "fin": [1, 2], "try": [1, 3]}.get(k, [])
    for i in subs:
        yield p[i]
    for i in subs:
        for q in shrink_prog(p[i]):
            r = list(p); r[i] = q
            yield r
    if k == "yield" and p[2] > 0:
        yield ["yield", p[1], 0]


def describe(case):
    d = dict(case)
    d["source_native"] = render(case["prog"], "native")
    d["source_genobj"] = render(case["prog"], "genobj")
    return d


def signature(stream, case, msg):
    return f"C06-{stream}"


PROP = Prop(
    pid="C06",
    props_v="theories/Props/C06.v",
    theory_files=["theories/Coro/Tree.v", "theories/Coro/Native.v", "theories/Coro/TreeProofs.v",
                  "theories/Coro/AsyncGen.v", "theories/Coro/GenObj.v", "theories/Coro/GenObjSim.v",
                  "theories/Coro/GenObjProofs.v", "theories/Coro/GenObjNested.v",
                  "theories/Coro/GenObjCorr.v"],
    streams=[
        Stream(name="native", imports=IMPORTS, run="GenObjCorr.native_run", input_type="gprog * list hop",
               gen=gen_native, impl=impl_native, to_coq=to_coq, oracle=oracle_native,
               nontrivial=nontrivial, shrink=shrink, describe=describe,
               corr_name="CPython 3.12.1 async generator object (AsyncGen.v)"),
        Stream(name="genobj", imports=IMPORTS, run="GenObjCorr.genobj_run", input_type="gprog * list hop",
               gen=gen_genobj, impl=impl_genobj, to_coq=to_coq, oracle=oracle_genobj,
               nontrivial=nontrivial, shrink=shrink, describe=describe,
               corr_name="asynkit GeneratorObjectIterator / Monitor (GenObj.v)"),
    ],
    rule="bodies: every gprog with <= 3 nodes (thorough: 4) over {log, await token, yield, return, raise E1, "
         "re-raise, nested call, seq, try/except over 5 class sets, finally} x histories of 3 operations "
         "steered by the native generator (no awaitable suspended: anext, asend 7, athrow E1, "
         "athrow GeneratorExit, aclose; suspended: resume by send 7 / throw E1 / throw CancelledError, "
         "second consumer anext / aclose) -- all of them for <= 2 nodes, quick: all of 2 ops + every 8th "
         "of 3 ops for 3 nodes, thorough: all for 3 nodes, every 2nd for 4 nodes, all of 4 ops for <= 2 "
         "nodes; 12 seed bodies x every such history of 3 (4) operations and every 8th of 4 (5); "
         "random bodies (3..12 nodes, ayield from depth 0..3, handlers over 10 classes, raising "
         "StopIteration/StopAsyncIteration/GeneratorExit/CancelledError) x random histories of <= 8 "
         "operations (every 6th with StopIteration/StopAsyncIteration/direct GeneratorExit throws, compared "
         "by the oracle only before the first such operation).  Non-trivial = at least two calls and a "
         "value produced or a real suspension; distinct = distinct canonical JSON of the input",
    signature=signature,
    assumptions=["the native async generator object of CPython 3.12.1 is modelled by Coro/AsyncGen.v and "
                 "validated against CPython by the `native` stream (including the ag_running quirk)",
                 "consumers drive awaitables like `await` does: first send(None), then send/throw; no "
                 "direct throw(GeneratorExit) into a suspended awaitable; thrown exceptions are not "
                 "StopIteration/StopAsyncIteration/OOBData; the body does not raise OOBData",
                 "asyncgen hooks / finalizers / __del__ (GC-dependent) are outside the model"],
)
