"""C20 - Coroutine state helpers classify every state of every coroutine kind.

One stream `state`: a body of one of the three kinds (native coroutine,
types.coroutine generator, async generator) built from {observe, await a
token-yielding awaitable, yield, return, raise} with an optional
`except BaseException` handler, driven by a history of send / throw / close
(coroutines, generators) or of operations on up to two asend()/athrow()/
aclose() awaitables (async generators: create, send, throw, close; leaving an
awaitable half-way and using the other slot is "abandoning" it).

Before and after every driver step, and from inside the running body (body
start, body exit, explicit observation statements, the inner awaitable's
__next__/throw/close) the harness records the raw CPython attributes and the
three asynkit helpers.  The Coq model (Coro/CoroStateCorr.v) must produce the
same observation; the oracle compares the helpers with the harness' own ground
truth (has body code run / has the body terminated / is it on the stack)."""
from __future__ import annotations

import itertools
import random
import sys
import types
import warnings

from .. import coqlit as L
from ..framework import Prop, Stream

KINDS = ("coro", "gen", "agen")

# observation sites
S_OUT, S_START, S_EXIT, S_OBS, S_NEXT, S_THROW, S_CLOSE = 0, 1, 2, 3, 4, 5, 6

# result codes of a driver step
R_TOKEN = 0        # the body suspended in an await: the token came out
R_VALUE = 1        # a yield: the value came out (generator) / StopIteration(value) (asend, athrow)
R_STOPITER = 2     # StopIteration without a value: coroutine/generator returned, aclose() complete
R_THROWN = 3       # the exception that was thrown in came back
R_BODYERR = 4      # the body's own exception
R_GENEXIT = 5      # GeneratorExit came out
R_NONE = 8         # the call returned None (close(), creating an awaitable)
R_STOPASYNC = 9    # StopAsyncIteration
R_RT_OTHER, R_RT_RUNNING, R_RT_REUSE, R_RT_IGNORED = 60, 61, 62, 63   # RuntimeError by message
R_TYPEERR = 7
R_NOSLOT = 99      # operation on an empty awaitable slot (nothing done)

TOKEN = "token"
YVAL = "yielded"


class Thrown(Exception):
    """what the driver throws in"""


class BodyError(Exception):
    """what a body raises by itself"""


class Env:
    """per-case harness state: the object, the ground truth, the observation log"""

    def __init__(self, case, helpers):
        self.main = case["main"]
        self.mterm = case["mterm"]
        self.handler = case["handler"]     # None or [stmts, term]
        self.started = False
        self.exited = False
        self.obj = None
        self.inside = []
        self.helpers = helpers
        self.kind = case["kind"]

    def observe(self, site):
        o = self.obj
        k = self.kind
        if k == "coro":
            frame, running, susp, aw = o.cr_frame, o.cr_running, o.cr_suspended, o.cr_await
        elif k == "gen":
            frame, running, susp, aw = o.gi_frame, o.gi_running, o.gi_suspended, o.gi_yieldfrom
        else:
            frame, running, susp, aw = o.ag_frame, o.ag_running, o.ag_suspended, o.ag_await
        is_new, is_susp, is_fin = self.helpers
        return [site, int(self.started), int(self.exited), int(site != S_OUT),
                int(frame is None),
                int(frame is not None and frame.f_lasti < 0),
                int(frame is not None and frame.f_back is not None),
                int(bool(running)), int(bool(susp)), int(aw is None),
                int(bool(is_new(o))), int(bool(is_susp(o))), int(bool(is_fin(o)))]

    def obs_inside(self, site):
        self.inside.append(self.observe(site))

    def log_start(self):
        self.started = True
        self.obs_inside(S_START)

    def log_exit(self):
        self.obs_inside(S_EXIT)
        self.exited = True


class Tok:
    """an awaitable which yields `n` tokens and observes the awaiting object
    from inside __next__ / throw / close"""

    def __init__(self, env, n):
        self.env = env
        self.n = n

    def __await__(self):
        return self

    def __iter__(self):
        return self

    def __next__(self):
        self.env.obs_inside(S_NEXT)
        if self.n > 0:
            self.n -= 1
            return TOKEN
        raise StopIteration(None)

    def throw(self, typ, val=None, tb=None):
        self.env.obs_inside(S_THROW)
        if val is not None:
            raise val
        raise typ

    def close(self):
        self.env.obs_inside(S_CLOSE)


def _bodies():
    """the three generic bodies; fresh code objects for every case (see fresh())"""

    async def coro_body(env):
        env.log_start()
        try:
            try:
                for st in env.main:
                    if st[0] == "obs":
                        env.obs_inside(S_OBS)
                    elif st[0] == "await":
                        await Tok(env, st[1])
                if env.mterm == "raise":
                    raise BodyError()
            except BaseException:
                if env.handler is None:
                    raise
                for st in env.handler[0]:
                    if st[0] == "obs":
                        env.obs_inside(S_OBS)
                    elif st[0] == "await":
                        await Tok(env, st[1])
                if env.handler[1] == "raise":
                    raise BodyError()
        finally:
            env.log_exit()

    @types.coroutine
    def gen_body(env):
        env.log_start()
        try:
            try:
                for st in env.main:
                    if st[0] == "obs":
                        env.obs_inside(S_OBS)
                    elif st[0] == "await":
                        yield from Tok(env, st[1])
                    elif st[0] == "yield":
                        yield YVAL
                if env.mterm == "raise":
                    raise BodyError()
            except BaseException:
                if env.handler is None:
                    raise
                for st in env.handler[0]:
                    if st[0] == "obs":
                        env.obs_inside(S_OBS)
                    elif st[0] == "await":
                        yield from Tok(env, st[1])
                    elif st[0] == "yield":
                        yield YVAL
                if env.handler[1] == "raise":
                    raise BodyError()
        finally:
            env.log_exit()

    async def agen_body(env):
        env.log_start()
        try:
            try:
                for st in env.main:
                    if st[0] == "obs":
                        env.obs_inside(S_OBS)
                    elif st[0] == "await":
                        await Tok(env, st[1])
                    elif st[0] == "yield":
                        yield YVAL
                if env.mterm == "raise":
                    raise BodyError()
            except BaseException:
                if env.handler is None:
                    raise
                for st in env.handler[0]:
                    if st[0] == "obs":
                        env.obs_inside(S_OBS)
                    elif st[0] == "await":
                        await Tok(env, st[1])
                    elif st[0] == "yield":
                        yield YVAL
                if env.handler[1] == "raise":
                    raise BodyError()
        finally:
            env.log_exit()

    return {"coro": coro_body, "gen": gen_body, "agen": agen_body}


_BODIES = _bodies()


def fresh(kind):
    """A copy of the body function with a *fresh code object*.  CPython 3.12.1 reads
    cr_await/gi_yieldfrom/ag_await of an *executing* frame from the inline cache
    that follows the SEND instruction; after ~125 executions of one SEND site
    with a non-generator awaitable the cache counter looks like a RESUME
    instruction and the getter returns a garbage stack slot (or crashes).  A
    fresh code object per case keeps the counters in their warm-up range."""
    f = _BODIES[kind]
    # (types.coroutine marks a generator function by a flag in its code object: kept by replace())
    return types.FunctionType(f.__code__.replace(), f.__globals__, f.__name__, f.__defaults__, f.__closure__)


def classify_exc(e):
    if isinstance(e, StopIteration):
        return R_STOPITER if e.value is None else R_VALUE
    if isinstance(e, StopAsyncIteration):
        return R_STOPASYNC
    if isinstance(e, Thrown):
        return R_THROWN
    if isinstance(e, BodyError):
        return R_BODYERR
    if isinstance(e, GeneratorExit):
        return R_GENEXIT
    if isinstance(e, RuntimeError):
        m = str(e)
        if "already running" in m:
            return R_RT_RUNNING
        if "cannot reuse" in m:
            return R_RT_REUSE
        if "ignored GeneratorExit" in m:
            return R_RT_IGNORED
        return R_RT_OTHER
    if isinstance(e, TypeError):
        return R_TYPEERR
    raise e


def call(f, *a):
    try:
        r = f(*a)
    except BaseException as e:  # noqa
        if isinstance(e, (KeyboardInterrupt, SystemExit)) or type(e).__name__ == "ImplTimeout":
            raise
        return classify_exc(e)
    if r is None:
        return R_NONE
    if r is TOKEN or r == TOKEN:
        return R_TOKEN
    if r == YVAL:
        return R_VALUE
    raise AssertionError(r)


def impl(case):
    from asynkit.coroutine import coro_is_finished, coro_is_new, coro_is_suspended
    env = Env(case, (coro_is_new, coro_is_suspended, coro_is_finished))
    kind = case["kind"]
    saved_hook = sys.unraisablehook
    sys.unraisablehook = lambda *a: None
    out = []
    with warnings.catch_warnings():
        warnings.simplefilter("ignore")
        try:
            obj = fresh(kind)(env)
            env.obj = obj
            slots = [None, None]
            for op in case["ops"]:
                before = env.observe(S_OUT)
                env.inside = []
                k = op[0]
                if kind != "agen":
                    if k == "send":
                        res = call(obj.send, None)
                    elif k == "throw":
                        res = call(obj.throw, Thrown())
                    elif k == "close":
                        res = call(obj.close)
                    else:
                        raise AssertionError(op)
                else:
                    i = op[1] if len(op) > 1 else 0
                    if k == "asend":
                        slots[i] = None
                        slots[i] = obj.asend(None)
                        res = R_NONE
                    elif k == "athrow":
                        slots[i] = None
                        slots[i] = obj.athrow(Thrown())
                        res = R_NONE
                    elif k == "aclose":
                        slots[i] = None
                        slots[i] = obj.aclose()
                        res = R_NONE
                    elif slots[i] is None:
                        res = R_NOSLOT
                    elif k == "send":
                        res = call(slots[i].send, None)
                    elif k == "throw":
                        res = call(slots[i].throw, Thrown())
                    elif k == "close":
                        res = call(slots[i].close)
                    else:
                        raise AssertionError(op)
                out.append([before, env.inside, res, env.observe(S_OUT)])
            env.inside = []
            # get rid of the objects quietly
            slots = None
            obj = None
            env.obj = None
        finally:
            sys.unraisablehook = saved_hook
    return out
