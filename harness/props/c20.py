"""C20 - Coroutine state helpers classify every state of every coroutine kind.

One stream `state`: a body of one of the three kinds (native coroutine,
types.coroutine generator, async generator) built from {observe, await a
token-yielding awaitable, yield, return, raise} with an optional
`except BaseException` handler, driven by a history of send / throw / close
(coroutines, generators) or of operations on up to two asend()/athrow()/
aclose() awaitables (async generators: create, send, throw, close; leaving an
awaitable half-way and using the other slot is "abandoning" it).

Before and after every driver step, and from inside the running body (body
start, body exit, explicit observation statements, the inner awaitable's
__next__/throw/close) the harness records the raw CPython attributes and the
three asynkit helpers.  The Coq model (Coro/CoroStateCorr.v) must produce the
same observation; the oracle compares the helpers with the harness' own ground
truth (has body code run / has the body terminated / is it on the stack)."""
from __future__ import annotations

import itertools
import random
import sys
import types
import warnings

from .. import coqlit as L
from ..framework import Prop, Stream

KINDS = ("coro", "gen", "agen")

# observation sites
S_OUT, S_START, S_EXIT, S_OBS, S_NEXT, S_THROW, S_CLOSE = 0, 1, 2, 3, 4, 5, 6

# result codes of a driver step
R_TOKEN = 0        # the body suspended in an await: the token came out
R_VALUE = 1        # a yield: the value came out (generator) / StopIteration(value) (asend, athrow)
R_STOPITER = 2     # StopIteration without a value: coroutine/generator returned, aclose() complete
R_THROWN = 3       # the exception that was thrown in came back
R_BODYERR = 4      # the body's own exception
R_GENEXIT = 5      # GeneratorExit came out
R_NONE = 8         # the call returned None (close(), creating an awaitable)
R_STOPASYNC = 9    # StopAsyncIteration
R_RT_OTHER, R_RT_RUNNING, R_RT_REUSE, R_RT_IGNORED = 60, 61, 62, 63   # RuntimeError by message
R_TYPEERR = 7
R_NOSLOT = 99      # operation on an empty awaitable slot (nothing done)

TOKEN = "token"
YVAL = "yielded"


class Thrown(Exception):
    """what the driver throws in"""


class BodyError(Exception):
    """what a body raises by itself"""


class Env:
    """per-case harness state: the object, the ground truth, the observation log"""

    def __init__(self, case, helpers):
        self.main = [list(s) for s in case["main"]]
        self.mterm = case["mterm"]
        h = case["handler"]                # None or [stmts, term]
        self.handler = None if h is None else [[list(s) for s in h[0]], h[1]]
        self.started = False
        self.exited = False
        self.obj = None
        self.inside = []
        self.helpers = helpers
        self.kind = case["kind"]

    def observe(self, site):
        o = self.obj
        k = self.kind
        if k == "coro":
            frame, running, susp, aw = o.cr_frame, o.cr_running, o.cr_suspended, o.cr_await
        elif k == "gen":
            frame, running, susp, aw = o.gi_frame, o.gi_running, o.gi_suspended, o.gi_yieldfrom
        else:
            frame, running, susp, aw = o.ag_frame, o.ag_running, o.ag_suspended, o.ag_await
        is_new, is_susp, is_fin = self.helpers
        return [site, int(self.started), int(self.exited), int(site != S_OUT),
                int(frame is None),
                int(frame is not None and frame.f_lasti < 0),
                int(frame is not None and frame.f_back is not None),
                int(bool(running)), int(bool(susp)), int(aw is None),
                int(bool(is_new(o))), int(bool(is_susp(o))), int(bool(is_fin(o)))]

    def obs_inside(self, site):
        if self.obj is not None:
            self.inside.append(self.observe(site))

    def kill(self):
        """end of the case: whatever is left of the body runs to its end without
        suspending again, so that close()/finalisation of the object is silent"""
        self.obj = None
        self.main.clear()
        self.mterm = "return"
        if self.handler is not None:
            self.handler[0].clear()
            self.handler[1] = "return"

    def log_start(self):
        self.started = True
        self.obs_inside(S_START)

    def log_exit(self):
        self.obs_inside(S_EXIT)
        self.exited = True


class Tok:
    """an awaitable which yields `n` tokens and observes the awaiting object
    from inside __next__ / throw / close"""

    def __init__(self, env, n, sw=0):
        self.env = env
        self.n = n
        self.sw = sw

    def __await__(self):
        return self

    def __iter__(self):
        return self

    def __next__(self):
        self.env.obs_inside(S_NEXT)
        if self.n > 0 and self.env.obj is not None:
            self.n -= 1
            return TOKEN
        raise StopIteration(None)

    def throw(self, typ, val=None, tb=None):
        self.env.obs_inside(S_THROW)
        if self.sw and self.env.obj is not None:
            self.sw = 0
            return TOKEN
        if val is not None:
            raise val
        raise typ

    def close(self):
        self.env.obs_inside(S_CLOSE)


def _bodies():
    """the three generic bodies; fresh code objects for every case (see fresh())"""

    async def coro_body(env):
        env.log_start()
        try:
            try:
                for st in env.main:
                    if st[0] == "obs":
                        env.obs_inside(S_OBS)
                    elif st[0] == "await":
                        await Tok(env, st[1], st[2])
                if env.mterm == "raise":
                    raise BodyError()
            except BaseException:
                if env.handler is None:
                    raise
                for st in env.handler[0]:
                    if st[0] == "obs":
                        env.obs_inside(S_OBS)
                    elif st[0] == "await":
                        await Tok(env, st[1], st[2])
                if env.handler[1] == "raise":
                    raise BodyError()
        finally:
            env.log_exit()

    @types.coroutine
    def gen_body(env):
        env.log_start()
        try:
            try:
                for st in env.main:
                    if st[0] == "obs":
                        env.obs_inside(S_OBS)
                    elif st[0] == "await":
                        yield from Tok(env, st[1], st[2])
                    elif st[0] == "yield":
                        yield YVAL
                if env.mterm == "raise":
                    raise BodyError()
            except BaseException:
                if env.handler is None:
                    raise
                for st in env.handler[0]:
                    if st[0] == "obs":
                        env.obs_inside(S_OBS)
                    elif st[0] == "await":
                        yield from Tok(env, st[1], st[2])
                    elif st[0] == "yield":
                        yield YVAL
                if env.handler[1] == "raise":
                    raise BodyError()
        finally:
            env.log_exit()

    async def agen_body(env):
        env.log_start()
        try:
            try:
                for st in env.main:
                    if st[0] == "obs":
                        env.obs_inside(S_OBS)
                    elif st[0] == "await":
                        await Tok(env, st[1], st[2])
                    elif st[0] == "yield":
                        yield YVAL
                if env.mterm == "raise":
                    raise BodyError()
            except BaseException:
                if env.handler is None:
                    raise
                for st in env.handler[0]:
                    if st[0] == "obs":
                        env.obs_inside(S_OBS)
                    elif st[0] == "await":
                        await Tok(env, st[1], st[2])
                    elif st[0] == "yield":
                        yield YVAL
                if env.handler[1] == "raise":
                    raise BodyError()
        finally:
            env.log_exit()

    return {"coro": coro_body, "gen": gen_body, "agen": agen_body}


_BODIES = _bodies()


def fresh(kind):
    """A copy of the body function with a *fresh code object*.  CPython 3.12.1 reads
    cr_await/gi_yieldfrom/ag_await of an *executing* frame from the inline cache
    that follows the SEND instruction; after ~125 executions of one SEND site
    with a non-generator awaitable the cache counter looks like a RESUME
    instruction and the getter returns a garbage stack slot (or crashes).  A
    fresh code object per case keeps the counters in their warm-up range."""
    f = _BODIES[kind]
    # (types.coroutine marks a generator function by a flag in its code object: kept by replace())
    return types.FunctionType(f.__code__.replace(), f.__globals__, f.__name__, f.__defaults__, f.__closure__)


def classify_exc(e):
    if isinstance(e, StopIteration):
        return R_STOPITER if e.value is None else R_VALUE
    if isinstance(e, StopAsyncIteration):
        return R_STOPASYNC
    if isinstance(e, Thrown):
        return R_THROWN
    if isinstance(e, BodyError):
        return R_BODYERR
    if isinstance(e, GeneratorExit):
        return R_GENEXIT
    if isinstance(e, RuntimeError):
        m = str(e)
        if "already running" in m:
            return R_RT_RUNNING
        if "cannot reuse" in m:
            return R_RT_REUSE
        if "ignored GeneratorExit" in m:
            return R_RT_IGNORED
        return R_RT_OTHER
    if isinstance(e, TypeError):
        return R_TYPEERR
    raise e


def call(f, *a):
    try:
        r = f(*a)
    except BaseException as e:  # noqa
        if isinstance(e, (KeyboardInterrupt, SystemExit)) or type(e).__name__ == "ImplTimeout":
            raise
        return classify_exc(e)
    if r is None:
        return R_NONE
    if r is TOKEN or r == TOKEN:
        return R_TOKEN
    if r == YVAL:
        return R_VALUE
    raise AssertionError(r)


def impl(case):
    from asynkit.coroutine import coro_is_finished, coro_is_new, coro_is_suspended
    env = Env(case, (coro_is_new, coro_is_suspended, coro_is_finished))
    kind = case["kind"]
    saved_hook = sys.unraisablehook
    sys.unraisablehook = lambda *a: None
    out = []
    with warnings.catch_warnings():
        warnings.simplefilter("ignore")
        try:
            obj = fresh(kind)(env)
            env.obj = obj
            slots = [None, None]
            for op in case["ops"]:
                before = env.observe(S_OUT)
                env.inside = []
                k = op[0]
                if kind != "agen":
                    if k == "send":
                        res = call(obj.send, None)
                    elif k == "throw":
                        res = call(obj.throw, Thrown())
                    elif k == "close":
                        res = call(obj.close)
                    else:
                        raise AssertionError(op)
                else:
                    i = op[1] if len(op) > 1 else 0
                    if k == "asend":
                        slots[i] = None
                        slots[i] = obj.asend(None)
                        res = R_NONE
                    elif k == "athrow":
                        slots[i] = None
                        slots[i] = obj.athrow(Thrown())
                        res = R_NONE
                    elif k == "aclose":
                        slots[i] = None
                        slots[i] = obj.aclose()
                        res = R_NONE
                    elif slots[i] is None:
                        res = R_NOSLOT
                    elif k == "send":
                        res = call(slots[i].send, None)
                    elif k == "throw":
                        res = call(slots[i].throw, Thrown())
                    elif k == "close":
                        res = call(slots[i].close)
                    else:
                        raise AssertionError(op)
                out.append([before, env.inside, res, env.observe(S_OUT)])
            # get rid of the objects quietly
            env.kill()
            try:
                if kind == "agen":
                    obj.aclose().send(None)
                else:
                    obj.close()
            except BaseException as e:  # noqa
                if isinstance(e, KeyboardInterrupt) or type(e).__name__ == "ImplTimeout":
                    raise
            slots = None
            obj = None
        finally:
            sys.unraisablehook = saved_hook
    return out


# ----------------------------------------------------------------------------
# Gallina printer
# ----------------------------------------------------------------------------
def coq_stmt(st):
    if st[0] == "obs":
        return "SObs"
    if st[0] == "yield":
        return "SYield"
    return f"SAwait {L.nat(st[1])} {L.boolean(st[2])}"


def coq_term(t):
    return "TReturn" if t == "return" else "TRaise"


def coq_op(kind, op):
    k = op[0]
    if kind != "agen":
        return {"send": "OSend", "throw": "OThrow", "close": "OClose"}[k]
    i = L.boolean(op[1])
    if k in ("asend", "athrow", "aclose"):
        return f"ONew {i} M{k.capitalize()}"
    return {"send": "OASend", "throw": "OAThrow", "close": "OAClose"}[k] + " " + i


def to_coq(case):
    h = case["handler"]
    hs = "None" if h is None else f"(Some ({L.lst([coq_stmt(s) for s in h[0]])}, {coq_term(h[1])}))"
    body = f"(mkBody {L.lst([coq_stmt(s) for s in case['main']])} {coq_term(case['mterm'])} {hs})"
    kind = {"coro": "KCoro", "gen": "KGen", "agen": "KAgen"}[case["kind"]]
    return f"({kind}, {body}, {L.lst([coq_op(case['kind'], o) for o in case['ops']])})"


# ----------------------------------------------------------------------------
# oracle: the helpers against the harness' ground truth
# ----------------------------------------------------------------------------
FIELDS = ("site", "started", "exited", "inside", "frame_is_None", "f_lasti<0", "f_back", "running",
          "suspended", "await_is_None", "is_new", "is_suspended", "is_finished")
SITES = {S_OUT: "between driver steps", S_START: "body start", S_EXIT: "body exit (finally)",
         S_OBS: "inside the body", S_NEXT: "inside the awaited object's __next__",
         S_THROW: "inside the awaited object's throw()", S_CLOSE: "inside the awaited object's close()"}


def judge(rec, killed):
    """None, or what is wrong with the helper results in one observation record"""
    site, started, exited, inside = rec[0:4]
    n, u, f = rec[10:13]
    if exited or killed:
        truth = "finished"
    elif inside:
        truth = "executing"
    elif started:
        truth = "suspended"
    else:
        truth = "new"
    said = [name for name, v in (("new", n), ("suspended", u), ("finished", f)) if v]
    if len(said) > 1:
        return f"more than one helper is true ({said}); the object is {truth}"
    got = said[0] if said else "executing"
    if got != truth:
        return (f"the object is {truth} (body started={started}, terminated={int(bool(exited or killed))}, "
                f"on the stack={inside}) but coro_is_new/suspended/finished = {n}/{u}/{f} say '{got}'")
    return None


def oracle(case, ob):
    ops = case["ops"]
    if not isinstance(ob, list) or len(ob) != len(ops) or any(
            not (isinstance(s, list) and len(s) == 4) for s in ob):
        return f"runner failed: {ob!r}"[:300]
    kind = case["kind"]
    killed = False
    usable = [False, False]      # an awaitable exists in the slot and was not close()d
    mode = [None, None]
    for step, (op, (before, inside, res, after)) in enumerate(zip(ops, ob)):
        where = f"step {step} {op} ({kind})"
        for rec in [before] + inside:
            m = judge(rec, killed)
            if m:
                return f"{where}, observed {SITES[rec[0]]} before/during the step: {m}; attributes {dict(zip(FIELDS, rec))}"
        # a throw()/close() that reaches an object which never started ends it without running the body
        if not before[1] and not killed:
            k = op[0]
            if kind != "agen":
                delivers = k in ("throw", "close")
            else:
                i = op[1]
                delivers = (usable[i] and ((k == "send" and mode[i] in ("athrow", "aclose")) or k == "throw"))
            if delivers:
                if after[1]:
                    return f"{where}: a throw()/close() before the first step started the body"
                killed = True
        if kind == "agen":
            k, i = op[0], op[1]
            if k in ("asend", "athrow", "aclose"):
                usable[i] = True
                mode[i] = k
            elif k == "close":
                usable[i] = False
        m = judge(after, killed)
        if m:
            return f"{where}, observed after the step (result {res}): {m}; attributes {dict(zip(FIELDS, after))}"
    return None


# ----------------------------------------------------------------------------
# generators
# ----------------------------------------------------------------------------
def stmt_alphabet(kind, rich):
    al = [["obs"], ["await", 1, 0], ["await", 0, 0]]
    if rich:
        al += [["await", 2, 0], ["await", 1, 1]]
    if kind != "coro":
        al.append(["yield"])
    return al


def bodies(kind, maxlen, rich):
    al = stmt_alphabet(kind, rich)
    handlers = [None, [[["await", 1, 0]], "return"], [[], "raise"]]
    if kind != "coro":
        handlers.append([[["yield"]], "return"])
    if rich:
        handlers.append([[["obs"], ["await", 1, 1]], "raise"])
    for n in range(maxlen + 1):
        for main in itertools.product(al, repeat=n):
            for mterm in ("return", "raise"):
                for h in handlers:
                    yield {"kind": kind, "main": [list(s) for s in main], "mterm": mterm,
                           "handler": None if h is None else [[list(s) for s in h[0]], h[1]]}


def plain_histories(depth):
    for n in range(1, depth + 1):
        for h in itertools.product(("send", "throw", "close"), repeat=n):
            yield [[k] for k in h]


def agen_histories(depth, nslots):
    """all histories of exactly `depth` operations which never touch an empty slot"""
    def rec(hist, have, d):
        if d == 0:
            yield list(hist)
            return
        for i in range(nslots):
            for k in ("asend", "athrow", "aclose"):
                yield from rec(hist + [[k, i]], have | {i}, d - 1)
            if i in have:
                for k in ("send", "throw", "close"):
                    yield from rec(hist + [[k, i]], have, d - 1)
    yield from rec([], frozenset(), depth)


def random_body(rng, kind):
    al = stmt_alphabet(kind, True)
    main = [list(rng.choice(al)) for _ in range(rng.randint(0, 4))]
    h = None
    if rng.random() < 0.6:
        h = [[list(rng.choice(al)) for _ in range(rng.randint(0, 3))], rng.choice(["return", "raise"])]
    return {"kind": kind, "main": main, "mterm": rng.choice(["return", "raise"]), "handler": h}


def random_history(rng, kind, n):
    if kind != "agen":
        return [[rng.choice(["send", "send", "send", "throw", "close"])] for _ in range(n)]
    ops = []
    have = set()
    for _ in range(n):
        i = rng.randint(0, 1) if rng.random() < 0.5 else 0
        r = rng.random()
        if i not in have or r < 0.25:
            ops.append([rng.choice(["asend", "asend", "athrow", "aclose"]), i])
            have.add(i)
        elif r < 0.75:
            ops.append(["send", i])
        elif r < 0.93:
            ops.append(["throw", i])
        else:
            ops.append(["close", i])
    return ops


def gen(rng, tier):
    quick = tier == "quick"
    # 1. bounded-exhaustive: small bodies x all short histories
    for kind in ("coro", "gen"):
        for b in bodies(kind, 1 if quick else 2, True):
            for h in plain_histories(3 if quick else 4):
                yield dict(b, ops=h)
    for b in bodies("agen", 1, True):
        for d in (2, 3) if quick else (2, 3, 4):
            for h in agen_histories(d, 1):
                yield dict(b, ops=h)
    if not quick:
        for b in bodies("agen", 2, False):
            for d in (2, 3):
                for h in agen_histories(d, 1):
                    yield dict(b, ops=h)
    # two interleaved awaitables on the bodies that can be suspended in an await and at a yield
    two = [{"kind": "agen", "main": [["yield"], ["await", 1, 0], ["yield"]], "mterm": "return",
            "handler": [[["await", 1, 0], ["yield"]], "return"]},
           {"kind": "agen", "main": [["await", 1, 1], ["yield"]], "mterm": "raise", "handler": None}]
    for b in two:
        for h in agen_histories(3 if quick else 4, 2):
            yield dict(b, ops=[["asend", 0], ["send", 0]] + h)
        for h in agen_histories(4 if quick else 5, 1):
            yield dict(b, ops=[["asend", 0], ["send", 0]] + h)
    # 2. random bodies and longer histories
    for i in range(3000 if quick else 20000):
        kind = ("agen", "agen", "coro", "gen")[i % 4]
        b = random_body(rng, kind)
        yield dict(b, ops=random_history(rng, kind, rng.choice([3, 5, 8, 12])))
    # 3. malformed: operations on empty awaitable slots
    for h in ([["send", 0]], [["throw", 1], ["asend", 1], ["close", 0], ["send", 1]]):
        yield {"kind": "agen", "main": [["yield"]], "mterm": "return", "handler": None, "ops": h}


def nontrivial(case, ob):
    return len(case["ops"]) >= 2 and isinstance(ob, list) and any(
        isinstance(s, list) and len(s) == 4 and s[3][1] for s in ob)


def shrink(case):
    ops = case["ops"]
    for i in reversed(range(len(ops))):
        yield dict(case, ops=ops[:i] + ops[i + 1:])
    if case["handler"] is not None:
        yield dict(case, handler=None)
        hs, ht = case["handler"]
        for i in range(len(hs)):
            yield dict(case, handler=[hs[:i] + hs[i + 1:], ht])
    for i in range(len(case["main"])):
        yield dict(case, main=case["main"][:i] + case["main"][i + 1:])
    if case["mterm"] == "raise":
        yield dict(case, mterm="return")


def signature(stream, case, msg):
    if case.get("kind") == "agen" and "the object is suspended" in msg and "say 'new'" in msg:
        return "F12"
    return None


PROP = Prop(
    pid="C20",
    props_v="theories/Props/C20.v",
    theory_files=["theories/Coro/CoroState.v", "theories/Coro/CoroStateCorr.v",
                  "theories/Coro/CoroStateProofs.v"],
    streams=[
        Stream(name="state", imports=["Coro.CoroState", "Coro.CoroStateCorr"], run="run",
               input_type="kind * body * list op",
               gen=gen, impl=impl, to_coq=to_coq, oracle=oracle, nontrivial=nontrivial,
               shrink=shrink, corr_name="coro_is_new/suspended/finished + CPython 3.12.1 object state"),
    ],
    rule="bodies of the three kinds over {observe, await an n-token awaitable (n=0..2, optionally swallowing "
         "one thrown exception), yield, return, raise} with an optional except-BaseException handler; "
         "bounded-exhaustive: every body with <=1 (thorough: <=2) main statements and one of 4-5 handlers x every "
         "send/throw/close history up to length 3 (4); every async-generator body with <=1 statement x every "
         "history of 2..3 (4) operations on one asend/athrow/aclose awaitable (thorough: also <=2 statements x "
         "2..3 operations); two bodies (started, at their first yield) x every history of 3 (4) "
         "operations on two interleaved awaitables and of 4 (5) operations on one; plus random bodies (<=4+3 statements) and histories (3..12 operations, two "
         "awaitable slots); a case is non-trivial when it has >=2 operations and the body started; "
         "distinct = distinct canonical JSON of the input",
    signature=signature,
    assumptions=["the object state machine of CPython 3.12.1 (gi_frame_state, ag_running_async, ag_closed, "
                 "asend/athrow awaitable states) is modelled by hand from genobject.c and tied to the interpreter "
                 "by this correspondence only",
                 "ground truth: new = no body code has run and the object was not closed; a throw()/close() "
                 "delivered before the first step finishes the object without running any body code",
                 "re-entrant operations on an object from inside its own running body are not generated"],
)
